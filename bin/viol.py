#!/usr/bin/env python3
import json,sys
d=json.load(open('/var/tmp/ve-out.json'))
flt=sys.argv[1] if len(sys.argv)>1 else ''
mx=int(sys.argv[2]) if len(sys.argv)>2 else 2
for k,r in d['results'].items():
    seen={}
    for v in r['violations'] or []:
        if flt and flt not in v['id']: continue
        key=(v['kind'],v['id'],v['pos'])
        seen[key]=seen.get(key,0)+1
        if seen[key]>mx: continue
        print('==',k,v['kind'],v['id'],v['pos'],(v.get('func') or '').split('/')[-1])
        print('   draws:',' '.join('%s=%s'%(x['name'],x.get('value')) for x in v.get('draws') or []))
        print('   trace:',v.get('trace'))
        if v.get('json_docs'): print('   json:',json.dumps(v['json_docs'])[:600])
    print('facts',len(r.get('facts') or {}))
