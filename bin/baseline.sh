#!/bin/sh
# Runs the repository's pinned test suite (guard off: no -tags verif) and compares the set of passing
# tests with /root/.vp/BASELINE.json's stable_pass list. Exit 0 iff every stable test passed.
cd /repo || exit 2
export GOFLAGS=-mod=mod GOPROXY=off GOSUMDB=off GOTOOLCHAIN=local
OUT=${TMPDIR:-/var/tmp}/verif-baseline-$$.json
go test -mod=mod -json -vet=off -count=1 -timeout 25m ./... > "$OUT" 2>/dev/null
python3 - "$OUT" <<'PY'
import json,sys
passed=set()
for l in open(sys.argv[1]):
    try: e=json.loads(l)
    except Exception: continue
    if e.get('Action')=='pass' and e.get('Test'):
        passed.add(e['Package']+'::'+e['Test'])
base=json.load(open('/root/.vp/BASELINE.json'))['stable_pass']
missing=[t for t in base if t not in passed]
print('stable tests passing: %d/%d'%(len(base)-len(missing),len(base)))
for m in missing: print('MISSING',m)
sys.exit(1 if missing else 0)
PY
rc=$?
rm -f "$OUT"
exit $rc
