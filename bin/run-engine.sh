#!/bin/sh
# helper: run engine and print a compact summary
cd /verif
export GOFLAGS=-mod=mod GOPROXY=off GOSUMDB=off GOTOOLCHAIN=local
M=github.com/enbility/ship-go
./bin/verif-engine -cut $M/ship.JsonFromEEBUSJson=uf -cut $M/ship.JsonIntoEEBUSJson=ufok "$@" -out /var/tmp/ve-out.json && python3 - <<'PY'
import json
d=json.load(open('/var/tmp/ve-out.json'))
print('load_s',d['load_s'])
for k,r in d['results'].items():
    print(k,'paths',r['paths'],r['path_ends'],'wall',round(r['wall_s'],2),'solver',round(r['solver_time_s'],2),r['queries'])
    print(' incomplete',sorted(set(r['incomplete'] or []))[:10],'unknown',r['unknown_branches'],'depth',r['max_call_depth_seen'],'loop',r['max_loop_iter_seen'])
    print(' covers',r['covers'])
    print(' unmodelled',r['unmodelled_calls'])
    seen=set()
    for v in r['violations'] or []:
        key=(v['kind'],v['id'],v['pos'])
        if key in seen: continue
        seen.add(key)
        print(' VIOL',v['kind'],v['id'],v['msg'],v['pos'],[s.split('.')[-1] for s in v['stack'][-4:]], 'unknown' if v.get('unknown') else '')
        m=v.get('model') or {}
        print('    model:',{k:m[k] for k in list(m)[:14]})
PY
