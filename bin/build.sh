#!/bin/sh
# builds the engine binary from <verif>/engine (offline); <verif> is the directory this script lives in (/verif or a snapshot)
set -e
V=$(cd "$(dirname "$0")/.." && pwd)
cd "$V/engine"
export GOFLAGS=-mod=mod GOPROXY=off GOSUMDB=off GOTOOLCHAIN=local
go build -o "$V/bin/verif-engine" ./cmd/verif-engine
