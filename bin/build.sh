#!/bin/sh
# builds the engine binary from /verif/engine (offline)
set -e
cd /verif/engine
export GOFLAGS=-mod=mod GOPROXY=off GOSUMDB=off GOTOOLCHAIN=local
go build -o /verif/bin/verif-engine ./cmd/verif-engine
