#!/usr/bin/env python3
"""usage: native.py <pkg> <entry> [hang_s] [--race]   runs a native harness entry (empty tape) against /repo's current tree"""
import json, os, sys, tempfile
sys.path.insert(0, "/verif/checks")
import lib
pkg, entry = sys.argv[1], sys.argv[2]
hang = int(sys.argv[3]) if len(sys.argv) > 3 and sys.argv[3].isdigit() else 120
d = tempfile.mkdtemp(prefix="verif-native-", dir="/var/tmp")
test = os.path.join(d, "t_test.go"); tape = os.path.join(d, "tape.json"); spec = os.path.join(d, "spec.json")
open(test, "w").write(lib.TEST_TMPL % {"pkg": pkg, "entry": entry, "hang_s": hang, "attempts": 1})
json.dump({"draws": []}, open(tape, "w"))
json.dump({"property": "X", "pkg": pkg, "entry": entry, "test": test, "tape": tape, "expect": {"any": ["VERIF-ASSERT-FAILED", "VERIF-PANIC", "VERIF-HANG"]},
           "redirects": [], "race": "--race" in sys.argv}, open(spec, "w"))
ok, out = lib.run_replay(spec, timeout=hang + 120)
print("\n".join(l for l in out.splitlines() if "VERIF" in l or "FAIL" in l or "ok " in l or "panic" in l or "DATA RACE" in l)[-3000:])
print("FAILED" if ok else "QUIET")
import shutil; shutil.rmtree(d)
