#!/usr/bin/env python3
"""Regenerates seeded/INDEX.md from seeded/*/meta.json."""
import json, glob, os
rows = []
for p in sorted(glob.glob('/verif/seeded/*/meta.json')):
    d = json.load(open(p))
    rows.append((os.path.basename(os.path.dirname(p)), d))
out = ["# Seeded regressions and which check catches them", "",
       "Each change was written by a sub-agent that saw only the property text, confirmed with bin/confirm-mutant.sh, and run against the checks with bin/try-patch.sh.", "",
       "| id | property | change | caught by | history |", "|---|---|---|---|---|"]
for name, d in rows:
    out.append("| %s | %s | %s | %s | %s |" % (name, d["property"], d["breaks"][:160].replace("|", "/"), "; ".join(d.get("caught_by") or ["NOT DETECTED"]).replace("|", "/"),
                                             (d.get("history") or "")[:200].replace("|", "/")))
out.append("")
out.append("%d seeded changes, %d detected." % (len(rows), sum(1 for _, d in rows if d.get("detected"))))
open('/verif/seeded/INDEX.md', 'w').write("\n".join(out) + "\n")
print(out[-1])
