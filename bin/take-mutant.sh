#!/bin/sh
# usage: take-mutant.sh <PROP> <suffix> <checks...>   copies /tmp/wt/<PROP>/_out to seeded/<PROP>-<suffix>, removes the worktree, runs checks
P=$1; S=$2; shift 2
D=/verif/seeded/$P-$S
mkdir -p $D && cp /tmp/wt/$P/_out/patch.diff /tmp/wt/$P/_out/zz_demo_test.go /tmp/wt/$P/_out/notes.md $D/ || exit 1
git -C /repo worktree remove --force /tmp/wt/$P
cd /verif && ./bin/try-patch.sh $D/patch.diff "$@" 2>&1 | grep -v "^note: inconcl\|KNOWN"
