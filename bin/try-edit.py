#!/usr/bin/env python3
"""usage: try-edit.py <file-in-repo> <old> <new> <prop>...   (self-seeded one-line mutants)
replaces exactly one occurrence of <old> by <new> in /repo/<file>, checks that the tree still builds,
runs the listed checks, restores /repo. <old>/<new> may contain \\n and \\t escapes.
With props == ['--save', name] the edit is written as a patch to /verif/seeded/self/<name>.diff instead."""
import os
import subprocess
import sys

ENV = dict(os.environ, GOFLAGS="-mod=mod", GOPROXY="off", GOSUMDB="off", GOTOOLCHAIN="local")


def main():
    f, old, new = sys.argv[1], sys.argv[2], sys.argv[3]
    props = sys.argv[4:]
    old = old.encode().decode("unicode_escape")
    new = new.encode().decode("unicode_escape")
    p = "/repo/" + f
    assert subprocess.run(["git", "-C", "/repo", "status", "--short"], capture_output=True, text=True).stdout.strip() == "", "repo dirty"
    s = open(p).read()
    n = s.count(old)
    if n != 1:
        print("pattern occurs %d times" % n)
        return 2
    open(p, "w").write(s.replace(old, new))
    try:
        b = subprocess.run("cd /repo && go build ./... && go vet ./%s 2>&1 | head -5" % os.path.dirname(f), shell=True, env=ENV, capture_output=True, text=True)
        if b.returncode != 0:
            print("BUILD-FAILED", b.stdout[-2000:], b.stderr[-2000:])
            return 2
        if props and props[0] == "--save":
            os.makedirs("/verif/seeded/self", exist_ok=True)
            d = subprocess.run(["git", "-C", "/repo", "diff"], capture_output=True, text=True).stdout
            open("/verif/seeded/self/%s.diff" % props[1], "w").write(d)
            return 0
        rc = 0
        for pr in props:
            r = subprocess.run(["/verif/bin/check", pr], capture_output=True, text=True, cwd="/verif")
            lines = [l for l in (r.stdout + r.stderr).splitlines() if not l.startswith("note: inconclusive") and not l.startswith("KNOWN-FINDING")]
            print("--- %s exit=%d" % (pr, r.returncode))
            print("\n".join(lines[-4:]))
            rc |= r.returncode
        return 0
    finally:
        subprocess.run(["git", "-C", "/repo", "checkout", "--", "."])


if __name__ == "__main__":
    sys.exit(main())
