#!/usr/bin/env python3
import json,sys
d=json.load(open(sys.argv[1] if len(sys.argv)>1 else '/var/tmp/ve-out.json'))
for e,r in d['results'].items():
  print(e,'paths',r['paths'],r['path_ends'],'wall',round(r['wall_s'],1),'solver',round(r['solver_time_s'],1),r['queries'],'incomplete',sorted(set(r['incomplete'] or []))[:6],'unmod',r['unmodelled_calls'],r['covers'])
  seen=set()
  for v in r['violations'] or []:
    ch=[(x['name'],x['value']) for x in v['draws'] or [] if x['kind']=='choice']
    k=(e,v['kind'],v['id'],tuple(ch))
    if k in seen: continue
    seen.add(k)
    if len(seen)>12: continue
    print('  ',k[1:3],v['pos'], ' '.join('%s=%s'%(x['name'],x.get('value')) for x in v['draws'] or [])[:400], (v['trace'] or [])[:8])
