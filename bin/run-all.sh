#!/bin/sh
# runs every registered check's quick (or $1) command on the current tree (evidence is rewritten)
V=$(cd "$(dirname "$0")/.." && pwd)
cd "$V"
for p in $(python3 -c "import json;print(' '.join(sorted(json.load(open('checks/registry.json'))['checks'])))"); do
  s=$(date +%s); out=$(./bin/check $p --tier ${1:-quick} 2>&1 | grep -v '^note:' | tail -3 | tr '\n' '|'); e=$(date +%s)
  echo "$p $((e-s))s $out"
done
