#!/bin/sh
# usage: try-patch.sh <patchfile|-R:commit> <prop>...   applies a patch to /repo, runs checks, restores /repo
P=$1; shift
cd /repo || exit 2
case "$P" in
 -R:*) git show "${P#-R:}" | git apply -R || exit 2;;
 *) git apply "$P" || exit 2;;
esac
cd /verif
for p in "$@"; do echo "--- $p"; ./bin/check $p 2>&1 | grep -v "^note: inconclusive" | tail -4; done
git -C /repo checkout -- . ; git -C /repo status --short
