#!/bin/sh
# usage: confirm-mutant.sh <name> <dir with patch.diff + zz_demo_test.go> <pkgdir of demo> [pkgs to test...]
# Confirms in a fresh scratch worktree: patch applies, builds, existing tests of the given packages pass,
# demo fails with the patch and passes without. Prints a summary; removes the worktree.
NAME=$1; SRC=$2; DEMOPKG=$3; shift 3
export GOFLAGS=-mod=mod GOPROXY=off GOSUMDB=off GOTOOLCHAIN=local
WT=/tmp/wtc-$NAME
git -C /repo worktree remove --force $WT 2>/dev/null
git -C /repo worktree add -q --detach $WT HEAD || exit 2
cd $WT
git apply $SRC/patch.diff || { echo "APPLY-FAILED"; git -C /repo worktree remove --force $WT; exit 1; }
go build ./... || { echo "BUILD-FAILED"; git -C /repo worktree remove --force $WT; exit 1; }
for p in "$@"; do
  go test -json -vet=off -count=1 -timeout 10m ./$p > /tmp/wtc-$NAME.json 2>/dev/null
  python3 - /tmp/wtc-$NAME.json $p <<'PY'
import json,sys
passed=set()
for l in open(sys.argv[1]):
    try: e=json.loads(l)
    except Exception: continue
    if e.get('Action')=='pass' and e.get('Test'): passed.add(e['Package']+'::'+e['Test'])
base=[t for t in json.load(open('/root/.vp/BASELINE.json'))['stable_pass'] if t.startswith('github.com/enbility/ship-go/'+sys.argv[2]+'::')]
missing=[t for t in base if t not in passed]
print('EXISTING-TESTS %s: %d/%d pass'%(sys.argv[2],len(base)-len(missing),len(base)), 'MISSING:' if missing else '', missing[:5])
PY
done
cp $SRC/zz_demo_test.go $DEMOPKG/zz_demo_test.go
go test -vet=off -count=1 -timeout 5m -run 'Demo|demo|ZZ' ./$DEMOPKG > /tmp/wtc-$NAME.with 2>&1; W=$?
git apply -R $SRC/patch.diff
go test -vet=off -count=1 -timeout 5m -run 'Demo|demo|ZZ' ./$DEMOPKG > /tmp/wtc-$NAME.without 2>&1; WO=$?
echo "DEMO with-patch exit=$W (want !=0), without-patch exit=$WO (want 0)"
tail -3 /tmp/wtc-$NAME.with; tail -2 /tmp/wtc-$NAME.without
cd /; git -C /repo worktree remove --force $WT; rm -f /tmp/wtc-$NAME.*
