"""Shared helpers for checks that use the ship harness (package ship)."""
from lib import compose_message, tape_from, unhex


def ship_tape(v):
    """Tape for a ship-harness violation: the symbolic frame 'msg' is replaced by real bytes whose
    parse (by the real encoding/json after the real JsonFromEEBUSJson) equals the model."""
    overrides = {}
    msg_draws = [d for d in v.get("draws") or [] if d["name"] == "msg"]
    if msg_draws:
        raw = unhex(msg_draws[-1].get("value", ""))
        header = raw[0] if len(raw) > 0 else 1
        docs = v.get("json_docs") or []
        contains = v.get("contains") or []
        if len(raw) < 2 and not docs:
            overrides["msg"] = raw
        else:
            overrides["msg"] = compose_message(header, docs, contains)
    return tape_from(v, overrides)
