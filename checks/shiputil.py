"""Shared helpers for checks that use the ship harness (package ship)."""
from lib import compose_message, tape_from, unhex


def ship_tape(v):
    """Tape for a ship-harness violation: every symbolic frame ('msg' draws) is replaced by real bytes whose
    parse (by the real encoding/json after the real JsonFromEEBUSJson) equals the model."""
    docs = v.get("json_docs") or []
    contains = v.get("contains") or []
    msg_draws = [d for d in v.get("draws") or [] if d["name"] == "msg"]
    single = len(msg_draws) <= 1
    overrides = {}
    for d in msg_draws:
        term = d.get("term") or "msg"
        raw = unhex(d.get("value", ""))
        header = raw[0] if len(raw) > 0 else 1
        mydocs = [x for x in docs if single or x.get("root") == term]
        mycont = [x for x in contains if single or x.get("root") == term]
        if len(raw) < 2 and not mydocs:
            overrides[term] = raw
        else:
            overrides[term] = compose_message(header, mydocs, mycont)
    return tape_from(v, overrides, by_term=True)
