"""Shared driver for the one-step (1-induction) ship checks C01, C04, C06, C09."""
import lib
from shiputil import ship_tape

STEP_ASSUMPTIONS = [
    "JSON-AM: encoding/json.Unmarshal may return any value of the target type or an error (same text => same answer, empty text => error); every counterexample is rebuilt as real bytes and re-parsed by the real decoder in the native replay",
    "CUTS: ship.JsonFromEEBUSJson / ship.JsonIntoEEBUSJson replaced by uninterpreted functions (C07's subject); json.Marshal yields opaque text with provenance",
    "ATOMIC-H: an event (frame, timeout, user approve/abort, connection error, local close, payload write, Run) runs to completion before the next; goroutines it spawns (delayed close closures) run right after it",
    "INV: the pre-state is arbitrary subject to the representation invariant of step.go:invHolds (role/state consistency, rest states only, trusted state => trust granted, reader set <=> completed, terminal/closed => transport closed and no timer); the same invariant is asserted on every post-state (ids inv.*), so it is inductive and one step covers histories of any length",
    "ENV: Run is the first event of a connection (hub code path); a timeout needs an armed timer flag (stale timers: C14); a closed transport delivers no frame (C13); trust oracles may change their answer at every call",
    "APP: SetupRemoteDevice returns a non-nil reader; LOG-NOP",
]


def run_step(prop, tier, entry, id_prefixes, bounds, extra_entries=(), loop=64):
    c = lib.Check(prop, tier)
    c.assumptions = list(STEP_ASSUMPTIONS)
    c.bounds = dict({"history_length": "unbounded (1-induction over the invariant)", "events_per_query": 1, "parsed_slice_len_max": 2,
                     "call_depth": 40, "loop_unwind": loop}, **bounds)
    entries = [entry, "H_Step_Vacuity"] + list(extra_entries)
    extra = []
    if tier == "thorough":
        extra = ["-param", "morebuf=1", "-param", "morefail=1"]
        c.bounds["pre_buffer_len_max"] = c.bounds.get("pre_buffer_len_max", 0) + 1
        if c.bounds.get("write_failures_per_step"):
            c.bounds["write_failures_per_step"] += 1
    res, meta = lib.run_engine("ship", entries, sched="manual", cuts=lib.SHIP_CUTS, loop=loop, extra=extra, paths=3000000)
    if tier == "thorough" and res:
        # the same encoding on the second solver: verdicts must agree
        res_b, meta_b = lib.run_engine("ship", [entry], sched="manual", cuts=lib.SHIP_CUTS, loop=loop, extra=extra, paths=3000000, solver="z3-new")
        c.add_run("ship-step-second-solver", res_b, meta_b)
        if res_b:
            a = sorted({(v["kind"], v["id"]) for v in res[entry]["violations"] or []})
            b = sorted({(v["kind"], v["id"]) for v in res_b[entry]["violations"] or []})
            c.extra["solver_agreement"] = {"z3": a, "z3-new": b, "agree": a == b, "paths": [res[entry]["paths"], res_b[entry]["paths"]]}
            if a != b or res[entry]["paths"] != res_b[entry]["paths"]:
                c.inconclusive.append("solvers disagree on %s: %s vs %s" % (entry, a, b))
    c.add_run("ship-step", res, meta)
    if res:
        vac = res.pop("H_Step_Vacuity")
        nvac = len([v for v in vac["violations"] or [] if v["id"] == "vacuity.step"])
        c.extra["vacuity_witnesses"] = {"H_Step_Vacuity": nvac}
        if nvac == 0:
            c.inconclusive.append("vacuity witness not reached: the step harness never arrives at its assertions")
        for e, r in res.items():
            if not r["covers"].get("step.end"):
                c.covers_missing.append(e + ":step.end")
            c.extra.setdefault("facts", {})[e] = sorted((r.get("facts") or {}).keys())
            for v in r["violations"] or []:
                if v["kind"] != "assert" or not any(v["id"].startswith(p) for p in id_prefixes):
                    continue  # other kinds (panics, self-deadlocks) are decided by C08 / C11 on the same encoding
                c.handle("ship", e, v, make_tape=ship_tape, hang_s=8)
    return c
