"""C17: visible-services view tracks the mDNS history and converges to its final state."""
import lib

MDNS_CUTS = {"(net.IP).String": "uf", "(net.IP).To4": "uf", "(net.IP).IsLinkLocalUnicast": "uf", lib.MOD + "/util.DeepCopy": "noop"}


def run(tier):
    c = lib.Check("C17", tier)
    c.assumptions = [
        "addresses are opaque tokens: net.IP.String / To4 / IsLinkLocalUnicast are uninterpreted functions of the token, String is injective on the three tokens used",
        "REFERENCE: harness/mdns/c17.go computes the expected map (valid record: five mandatory keys, txtvers=1, not the local SKI, boolean register; remove deletes; add merges usable addresses without duplicates; unknown add inserts) and the post-map of the real processMdnsEntry must equal it; since the pre-map is arbitrary (0..2 entries, 0..2 addresses each, invariant: usable and duplicate-free) the step covers event histories of any length",
        "CUT: util.DeepCopy (json round trip of the snapshot) is a no-op; the asynchronous report is counted, its ordering is the second part (scheduler exploration)",
    ]
    c.bounds = {"pre_entries_max": 2, "addresses_per_entry_max": 2, "event_addresses_max": 2, "address_tokens": 3, "loop_unwind": 80}
    res, meta = lib.run_engine("mdns", ["H_C17_Step"], sched="manual", cuts=MDNS_CUTS, loop=80)
    c.add_run("map-vs-reference", res, meta)
    for e, r in (res or {}).items():
        if not r["covers"].get("c17.end"):
            c.covers_missing.append(e + ":c17.end")
        for v in r["violations"] or []:
            if v["kind"] in ("assert", "panic"):
                c.handle("mdns", e, v, replay=False)  # tokens have no native counterpart (uninterpreted address functions)
    return c.finish()
