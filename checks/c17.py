"""C17: visible-services view tracks the mDNS history and converges to its final state."""
import lib

MDNS_CUTS = {"(net.IP).String": "uf", "(net.IP).To4": "uf", "(net.IP).IsLinkLocalUnicast": "uf", lib.MOD + "/util.DeepCopy": "noop"}


def run(tier):
    c = lib.Check("C17", tier)
    c.assumptions = [
        "addresses are opaque tokens: net.IP.String / To4 / IsLinkLocalUnicast are uninterpreted functions of the token, String is injective on the three tokens used",
        "REFERENCE: harness/mdns/c17.go computes the expected map (valid record: five mandatory keys, txtvers=1, not the local SKI, boolean register; remove deletes; add merges usable addresses without duplicates; unknown add inserts) and the post-map of the real processMdnsEntry must equal it; since the pre-map is arbitrary (0..2 entries, 0..2 addresses each, invariant: usable and duplicate-free) the step covers event histories of any length",
        "CUT: util.DeepCopy (json round trip of the snapshot) is a no-op in the engine",
        "part 2b (H_C17_OrderReq): every program of three operations from {add one, add two, remove one, RequestMdnsEntries} with the report goroutines interleaved under the delay-bounded scheduler: after settling the last delivered list has the size of the final set",
        "part 2 (H_C17_Order): two changing events, the report goroutines interleaved under the delay-bounded scheduler: the last list delivered is the final set",
    ]
    c.bounds = {"pre_entries_max": 2, "addresses_per_entry_max": 2, "event_addresses_max": 2, "address_tokens": 3, "loop_unwind": 80}
    res, meta = lib.run_engine("mdns", ["H_C17_Step"], sched="manual", cuts=MDNS_CUTS, loop=80)
    c.add_run("map-vs-reference", res, meta)
    for e, r in (res or {}).items():
        if not r["covers"].get("c17.end"):
            c.covers_missing.append(e + ":c17.end")
        for v in r["violations"] or []:
            if v["kind"] in ("assert", "panic"):
                c.handle("mdns", e, v, replay=False)  # tokens have no native counterpart (uninterpreted address functions)
    # part 2: the asynchronous reports of two changing events under every delay-bounded schedule
    d = 5 if tier == "thorough" else 4
    res2, meta2 = lib.run_engine("mdns", ["H_C17_Order"], sched="explore", preempt=d, cuts=MDNS_CUTS, loop=80)
    c.add_run("report-order", res2, meta2)
    d3 = 3 if tier == "thorough" else 2
    res3, meta3 = lib.run_engine("mdns", ["H_C17_OrderReq"], sched="explore", preempt=d3, cuts=MDNS_CUTS, loop=80, paths=3000000)
    c.add_run("report-order-with-requests", res3, meta3)
    c.bounds["delay_bound_request_programs"] = d3
    res2 = dict(res2 or {})
    res2.update(res3 or {})
    c.bounds["changing_events_in_flight"] = 2
    c.bounds["delay_bound"] = d
    for e, r in (res2 or {}).items():
        if not r["covers"].get("c17.end"):
            c.covers_missing.append(e + ":c17.end")
        for v in r["violations"] or []:
            if v["kind"] in ("assert", "panic", "deadlock"):
                c.handle("mdns", e, v, replay=True, attempts=200, hang_s=60)
    return c.finish()
