"""C10: pairing follows user intent - dial only registered SKIs; unpair disconnects."""
import lib
import hubstep

HUB_ASSUMPTIONS = [
    "one hub operation runs to completion before the next (a user call racing inside another hub method is outside; data races are C20)",
    "CUT: Hub.connectFoundService (the TLS/websocket dial) is replaced by the harness function vDial that records a ghost dial event and fails or succeeds symbolically",
    "fakes for mDNS (api.MdnsInterface), the application (api.HubReaderInterface) and registered connections (api.ShipConnectionInterface) record calls",
    "pre-state: two remote SKIs with arbitrary trusted flag / pairing state / attempt counter / attempt-running flag / registered connection, constrained by INV: trusted or queued => user intent or an earlier hello-ok; INV is asserted on the post-state (inductive)",
    "state reports come only from states a connection enters (not InitStart / unused constants): established by C04's state-graph check",
    "SKI arguments of application calls in the canonical and in a display spelling (upper case, blanks, dashes); the general spelling invariance is C15's subject; RAND: rand.Intn(n) in [0,n)",
]


def run(tier):
    c = lib.Check("C10", tier)
    c.assumptions = list(HUB_ASSUMPTIONS)
    c.bounds = {"history_length": "unbounded (1-induction over INV)", "operations_per_query": 1, "remote_skis": 2, "loop_unwind": 64}
    hubstep.run_hub(c, ["H_Hub_Step"], ("C10.",))
    # ship side of "cancel aborts the pending handshake": the real AbortPendingHandshake in every waiting state
    import shipstep
    from shiputil import ship_tape
    res, meta = lib.run_engine("ship", ["H_Step_C01"], sched="manual", cuts=lib.SHIP_CUTS, loop=64)
    c.add_run("ship-abort", res, meta)
    for e, r in (res or {}).items():
        for v in r["violations"] or []:
            if v["kind"] == "assert" and v["id"].startswith("C10."):
                c.handle("ship", e, v, make_tape=ship_tape)
    return c.finish()
