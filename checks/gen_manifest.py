#!/usr/bin/env python3
"""Regenerates /verif/MANIFEST.json from checks/registry.json (claimed checks) and properties.jsonl."""
import json
props = [json.loads(l) for l in open('/verif/properties.jsonl')]
reg = json.load(open('/verif/checks/registry.json'))
checks = []
for pid, r in sorted(reg["checks"].items()):
    checks.append({
        "property_id": pid,
        "quick_cmd": "bin/check %s --tier quick" % pid,
        "thorough_cmd": "bin/check %s --tier thorough" % pid,
        "evidence_file": "/verif/evidence/%s.json" % pid,
        "replay_cmd_template": "bin/check --replay {path}",
        "engine": "verif-engine",
        "level_claimed": {"category": r["level"], "text": r["text"], "design_ref": r.get("design_ref", "DESIGN.md section 3")},
        "level_note": r["note"],
        "technique": r["technique"],
    })
na = [{"property_id": p["id"], "reason": reg["not_applicable"].get(p["id"], "check not built yet (work in progress)")}
      for p in props if p["id"] not in reg["checks"]]
m = {
    "version": 1,
    "setup_cmd": "sh bin/build.sh",
    "hooks": {"guard": "verif",
              "enable": "harnesses are overlay files tagged //go:build verif under /verif/harness, injected with go/packages Overlay (engine) and `go test -tags verif -overlay` (replay); nothing is compiled into /repo",
              "baseline_off_cmd": "sh /verif/bin/baseline.sh", "source_commits": [], "add_only": True},
    "engines": [{"name": "verif-engine", "path": "/verif/engine", "serves_properties": sorted(reg["checks"].keys()),
                 "kind_free_text": "symbolic executor for go/ssa (path forking, symbolic heap/strings/maps/channels/goroutines) emitting SMT-LIB2 to persistent z3/cvc5 processes; counterexamples replayed natively via go test -overlay"}],
    "checks": checks,
    "not_applicable": na,
    "notes": "bounded symbolic execution of the real code; see DESIGN.md. Fix commits in /repo and known findings are listed in /verif/known_findings.json.",
}
json.dump(m, open('/verif/MANIFEST.json', 'w'), indent=1)
print("checks:", len(checks), "not_applicable:", len(na))
