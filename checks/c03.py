"""C03: two ship-go endpoints always agree - both complete the handshake or neither does."""
import lib
from shipstep import STEP_ASSUMPTIONS


def run(tier):
    c = lib.Check("C03", tier)
    c.assumptions = [
        "the real ship state machine instantiated twice (client, server), connected by two FIFO queues (harness transport); frames are the library's own marshalled structs",
        "WIRE-RT: a struct marshalled, EEBUS-transformed and sent by one endpoint is parsed by the other into the same type unchanged and into any other type as the zero value without error (json.Marshal/Unmarshal and both transform functions are cut to this identification; the transform itself is C07); marshalled texts have at least 3 bytes",
        "events: delivery of the next frame in either direction, user approve / cancel while the request is pending on the server, timer expiry on either side (timely mode: only when nothing else is enabled; arbitrary mode: at any point, at most N per run), propagation of a transport close to the peer (connection error, once); closures spawned by an event run right after it",
        "trust configurations: paired / auto-accept / neither with waiting allowed or not; user approves / cancels / never answers; each side knows the other's SHIP ID or not",
        "the endless prolongation while a user never answers is not examined (runs that are not quiescent within the step bound or keep a timer armed are outside the claim)",
    ]
    n = 2 if tier == "thorough" else 1
    c.bounds = {"steps_max": 40, "timeouts_per_run_arbitrary_mode": n, "queues": "unbounded within the step bound (<= 6 frames in flight observed)"}
    res, meta = lib.run_engine("ship", ["H_C03_Timely", "H_C03_Arbitrary"], sched="manual", cuts=lib.SHIP_CUTS, loop=200, depth=60, paths=5000000,
                               extra=["-param", "maxtimeouts=%d" % n])
    c.add_run("two-endpoints", res, meta)
    for e, r in (res or {}).items():
        if not r["covers"].get("c03.end"):
            c.covers_missing.append(e + ":c03.end")
        if r["covers"].get("c03.step-bound-reached"):
            c.notes.append("%s: %d paths were not quiescent within the step bound (outside the claim)" % (e, r["covers"]["c03.step-bound-reached"]))
        c.extra.setdefault("quiescent_state_pairs", {})[e] = sorted(k for k in (r.get("facts") or {}) if k.startswith("c03end"))
        for v in r["violations"] or []:
            if v["kind"] in ("assert", "panic", "deadlock"):
                c.handle("ship", e, v, hang_s=30)
    return c.finish()
