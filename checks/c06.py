"""C06: SPINE payloads delivered exactly once, in order, only after completion."""
import shipstep


def run(tier):
    c = shipstep.run_step("C06", tier, "H_Step_C06", ("C06.",), {"write_failures_per_step": 0, "pre_buffer_len_max": 2},
                          extra_entries=("H_C06_Send", "H_C06_Seq"))
    c.assumptions.append("json.RawMessage values are real byte slices in the encoding (capacity 3, symbolic content) and a decode into an existing RawMessage reuses its backing array as encoding/json does: aliasing between buffered payloads and a reused decode target is visible (H_C06_Seq, 3 consecutive frames)")
    c.assumptions.append("NET-FIFO: the websocket delivers frames in order, once, or closes; payload fidelity of the wire encoding is C07")
    return c.finish()
