"""C06: SPINE payloads delivered exactly once, in order, only after completion."""
import shipstep


def run(tier):
    c = shipstep.run_step("C06", tier, "H_Step_C06", ("C06.",), {"write_failures_per_step": 0, "pre_buffer_len_max": 2},
                          extra_entries=("H_C06_Send", "H_C06_Seq"))
    c.assumptions.append("json.RawMessage values are real byte slices in the encoding (capacity 3, symbolic content) and a decode into an existing RawMessage reuses its backing array as encoding/json does: aliasing between buffered payloads and a reused decode target is visible (H_C06_Seq, 3 consecutive frames)")
    c.assumptions.append("NET-FIFO: the websocket delivers frames in order, once, or closes; payload fidelity of the wire encoding is C07")
    # sender side below the SHIP connection: a burst of datagrams while the transport is stalled, connection open
    import lib
    import wsutil
    cuts = dict(lib.SHIP_CUTS)
    cuts.update(wsutil.WS_CUTS)
    n = 80 if tier == "thorough" else 40
    res, meta = lib.run_engine("ws", ["H_C06_Burst"], sched="explore", preempt=0, cuts=cuts, loop=400, extra=["-param", "burst=%d" % n], deadline=600)
    c.add_run("sender-burst", res, meta)
    c.bounds["burst_datagrams_while_transport_stalled"] = n
    c.assumptions.append("sender burst (H_C06_Burst): the real websocket layer, one writer handing over N datagrams while the transport write is stalled, then the transport continues; the connection stays open: no write is refused, all N frames reach the transport in order (round-robin schedule; concurrent writers and closures are C12). Native twin: a completed SHIP connection over a loopback websocket whose socket blocks writes until released, 120 datagrams")
    for e, r in (res or {}).items():
        if not r["covers"].get("c06.burst.end"):
            c.covers_missing.append(e + ":c06.burst.end")
        for v in r["violations"] or []:
            if v["kind"] in ("panic", "deadlock") or (v["kind"] == "assert" and v["id"].startswith("C06.")):
                c.handle("ws", "H_C06_Burst_Native", dict(v, draws=[]), hang_s=60, expect={"any": ["VERIF-ASSERT-FAILED", "VERIF-PANIC", "VERIF-HANG"]})
    return c.finish()
