"""C06: SPINE payloads delivered exactly once, in order, only after completion."""
import shipstep


def run(tier):
    c = shipstep.run_step("C06", tier, "H_Step_C06", ("C06.",), {"write_failures_per_step": 0, "pre_buffer_len_max": 2},
                          extra_entries=("H_C06_Send",))
    c.assumptions.append("NET-FIFO: the websocket delivers frames in order, once, or closes; payload fidelity of the wire encoding is C07")
    return c.finish()
