"""Orchestration for the solver-based checks: runs the engine on /repo's current tree,
classifies counterexamples (known finding / new violation / spurious), replays them
natively through `go test -overlay`, writes evidence."""
import hashlib
import json
import os
import shutil
import subprocess
import sys
import tempfile
import time

VERIF = os.environ.get("VERIF_ROOT") or os.path.dirname(os.path.dirname(os.path.abspath(__file__)))  # /verif, or a snapshot of it (vp run)
REPO = "/repo"
MOD = "github.com/enbility/ship-go"
ENGINE = os.path.join(VERIF, "bin", "verif-engine")
GOENV = dict(os.environ, GOFLAGS="-mod=mod", GOPROXY="off", GOSUMDB="off", GOTOOLCHAIN="local")

# per-run wall-clock budget of the engine by tier (seconds)
ENGINE_DEADLINE_S = {"quick": 1500, "thorough": 4 * 3600}
CURRENT_TIER = ["quick"]

SHIP_CUTS = {
    MOD + "/ship.JsonFromEEBUSJson": "uf",
    MOD + "/ship.JsonIntoEEBUSJson": "ufok",
}


def ensure_engine():
    """(Re)build the engine binary if it is missing or older than its sources."""
    src_m = 0
    for root, _, files in os.walk(os.path.join(VERIF, "engine")):
        for f in files:
            src_m = max(src_m, os.path.getmtime(os.path.join(root, f)))
    if not os.path.exists(ENGINE) or os.path.getmtime(ENGINE) < src_m:
        r = subprocess.run(["go", "build", "-o", ENGINE, "./cmd/verif-engine"],
                           cwd=os.path.join(VERIF, "engine"), env=GOENV, capture_output=True, text=True)
        if r.returncode != 0:
            sys.stderr.write(r.stderr)
            raise SystemExit(2)


def _limit_memory():
    """The engine (and the solvers it starts) may not take the machine down: address space capped at 40 GiB."""
    import resource
    lim = 40 * 1024 ** 3
    try:
        resource.setrlimit(resource.RLIMIT_AS, (lim, lim))
    except (ValueError, OSError):
        pass


def scratch_dir():
    base = os.environ.get("TMPDIR") or "/var/tmp"
    return tempfile.mkdtemp(prefix="verif-", dir=base)


def run_engine(pkg, entries, sched="manual", cuts=None, workers=14, solver="z3", depth=40, loop=8,
               paths=400000, timeout_ms=10000, deadline=0, extra=None, preempt=2, strbytes=False, maxstr=0):
    """Runs the engine; returns (results dict keyed by entry, meta)."""
    ensure_engine()
    tmp = scratch_dir()
    out = os.path.join(tmp, "out.json")
    cmd = [ENGINE, "-repo", REPO, "-harness", os.path.join(VERIF, "harness"), "-pkg", pkg, "-sched", sched,
           "-workers", str(workers), "-solver", solver, "-depth", str(depth), "-loop", str(loop),
           "-paths", str(paths), "-timeout", str(timeout_ms), "-preempt", str(preempt), "-out", out]
    # wall-clock budget of one engine run: the engine stops handing out work at the deadline (reported as incomplete, never
    # as a pass at the full bound); a run that is still alive some minutes later is killed (the check then reports that
    # the tree could not be analysed - it never hangs)
    if not deadline:
        deadline = ENGINE_DEADLINE_S.get(CURRENT_TIER[0], 1500)
    cmd += ["-deadline", str(deadline)]
    if strbytes:
        cmd += ["-strbytes"]
    if maxstr:
        cmd += ["-maxstr", str(maxstr)]
    for e in entries:
        cmd += ["-entry", e]
    for k, v in (cuts or {}).items():
        cmd += ["-cut", "%s=%s" % (k, v)]
    cmd += extra or []
    t0 = time.time()
    # own process group: on a timeout the engine and every solver process it started are killed together
    proc = subprocess.Popen(cmd, env=GOENV, stdout=subprocess.PIPE, stderr=subprocess.PIPE, text=True, preexec_fn=_limit_memory, start_new_session=True)
    try:
        so, se = proc.communicate(timeout=deadline + 600)
    except subprocess.TimeoutExpired:
        try:
            os.killpg(proc.pid, 9)
        except OSError:
            pass
        proc.wait()
        shutil.rmtree(tmp, ignore_errors=True)
        return None, {"error": "engine run killed after %d s (deadline %d s + 600 s grace): %s" % (deadline + 600, deadline, " ".join(cmd)[:600]),
                      "cmd": " ".join(cmd), "wall_s": time.time() - t0}

    class _R:
        pass
    r = _R()
    r.returncode, r.stdout, r.stderr = proc.returncode, so, se
    wall = time.time() - t0
    try:
        if r.returncode != 0 or not os.path.exists(out):
            return None, {"error": (r.stderr or r.stdout)[-4000:] or "engine exited with status %s and no output (killed: out of memory?)" % r.returncode, "cmd": " ".join(cmd), "wall_s": wall}
        with open(out) as f:
            d = json.load(f)
    finally:
        shutil.rmtree(tmp, ignore_errors=True)
    d["wall_s"] = wall
    d["cmd"] = " ".join(cmd)
    return d["results"], d


# ---------------- known findings ----------------

def load_known():
    p = os.path.join(VERIF, "known_findings.json")
    if not os.path.exists(p):
        return []
    with open(p) as f:
        return json.load(f)["findings"]


def short_func(f):
    f = f or ""
    return f.split("/")[-1]


def matches(entry, prop, v):
    """Does violation v match a known-findings entry?"""
    if entry.get("property") != prop or entry.get("status") != "known":
        return False
    m = entry["match"]
    if "kind" in m and m["kind"] != v.get("kind"):
        return False
    if "id" in m and m["id"] != v.get("id"):
        return False
    if "func" in m and m["func"] not in short_func(v.get("func")):
        return False
    if "entry" in m and m["entry"] != v.get("entry"):
        return False
    for k, want in (m.get("draws") or {}).items():
        got = [d["value"] for d in v.get("draws") or [] if d["name"] == k]
        if not got or str(got[0]) not in [str(w) for w in (want if isinstance(want, list) else [want])]:
            return False
    for k, want in (m.get("trace_has") and {"x": m["trace_has"]} or {}).items():
        for w in (want if isinstance(want, list) else [want]):
            if not any(w in t for t in v.get("trace") or []):
                return False
    return True


# ---------------- message concretisation (assumption JSON-AM discharged by replay) ----------------

def _is_obj(v):
    return isinstance(v, dict) and "__obj" in v


def render(v):
    """Renders a concretised value as JSON text that survives JsonFromEEBUSJson unchanged
    (no '[{', '},{', '}]', '[]' sequences) and keeps '"key":{' compact for substring tests."""
    if _is_obj(v):
        parts = []
        for k in (v["__keys"] or []):
            val = v["__obj"][k]
            if _is_obj(val):
                parts.append('%s:%s' % (json.dumps(k), render(val)))
            else:
                parts.append('%s : %s' % (json.dumps(k), render(val)))
        return "{ " + " , ".join(parts) + " }"
    if isinstance(v, dict) and "__raw" in v:
        return '{ "datagram" : %s }' % json.dumps(v["__raw"])
    if isinstance(v, list):
        return "[ " + " , ".join(render(x) for x in v) + " ]"
    if isinstance(v, bool):
        return "true" if v else "false"
    if isinstance(v, (int, float)):
        return str(v)
    if isinstance(v, str):
        return json.dumps(v)
    return "null"


def compose_message(header_byte, docs, contains):
    """Builds real message bytes from the json.Unmarshal stub results of one event."""
    members = []
    keys_seen = set()
    any_ok = False
    for d in docs:
        if d["err"]:
            continue
        any_ok = True
        doc = d.get("doc")
        if _is_obj(doc):
            for k in (doc["__keys"] or []):
                if k in keys_seen:
                    continue
                keys_seen.add(k)
                val = doc["__obj"][k]
                if _is_obj(val):
                    members.append('%s:%s' % (json.dumps(k), render(val)))
                else:
                    members.append('%s : %s' % (json.dumps(k), render(val)))
    for d in docs:
        if d["err"] and any_ok:
            for k in d.get("keys") or []:
                if k not in keys_seen:
                    keys_seen.add(k)
                    members.append('%s : 7' % json.dumps(k))  # type mismatch => error for this target only
    body = None
    if any_ok or not docs:
        for c in contains:
            n = c["needle"]
            if c["val"] and n.startswith('"') and n.endswith('":{'):
                k = n[1:-3]
                if k not in keys_seen:
                    keys_seen.add(k)
                    members.append('%s:{ }' % json.dumps(k))
        body = "{ " + " , ".join(members) + " }"
        if not docs and not members:
            body = "@"
    else:
        body = "@"  # every target fails to parse
    for c in contains:
        if c["val"] and c["needle"] not in body:
            if body.startswith("{") and c["needle"] == "datagram":
                body = body[:-1] + ', "datagram" : 0 }' if members else '{ "datagram" : 0 }'
            elif not body.startswith("{"):
                body += c["needle"]
    return bytes([header_byte]) + body.encode("latin-1", "replace")


def unhex(v):
    if isinstance(v, str) and v.startswith("hex:"):
        return bytes.fromhex(v[4:])
    return (v or "").encode("latin-1", "replace")


def tape_from(v, overrides=None, by_term=False):
    draws = []
    for d in v.get("draws") or []:
        if d["name"].startswith("json.") or d["name"].startswith("rand."):
            continue  # engine-internal choices (stub results), not harness draws
        val = d.get("value", "")
        key = (d.get("term") or d["name"]) if by_term else d["name"]
        if overrides and key in overrides:
            val = "hex:" + overrides[key].hex()
        draws.append({"name": d["name"], "kind": d["kind"], "value": val})
    return {"draws": draws}


# ---------------- native replay ----------------

TEST_TMPL = '''//go:build verif

package %(pkg)s

import (
	"fmt"
	"testing"
	"time"

	zz "github.com/enbility/ship-go/zzvrt"
)

// generated by /verif/checks/lib.py: replays a solver counterexample natively
func TestVerifReplay(t *testing.T) {
	done := make(chan string, 1)
	go func() {
		defer func() {
			if r := recover(); r != nil {
				if af, ok := r.(zz.AssumeFailed); ok {
					done <- "VERIF-TAPE-MISMATCH: " + af.Msg
					return
				}
				done <- fmt.Sprint("VERIF-PANIC: ", r)
				return
			}
			done <- "VERIF-RETURNED"
		}()
		for attempt := 0; attempt < %(attempts)d; attempt++ {
			if attempt > 0 {
				zz.Rewind()
			}
			%(entry)s()
			if len(zz.Failures) > 0 {
				break
			}
		}
	}()
	select {
	case s := <-done:
		fmt.Println(s)
	case <-time.After(%(hang_s)d * time.Second):
		fmt.Println("VERIF-HANG")
	}
	for _, f := range zz.Failures {
		fmt.Println("VERIF-ASSERT-FAILED:", f)
	}
	for _, s := range zz.Trace {
		fmt.Println("VERIF-TRACE:", s)
	}
}
'''


def harness_overlay(extra=None):
    rep = {}
    hdir = os.path.join(VERIF, "harness")
    for d in sorted(os.listdir(hdir)):
        p = os.path.join(hdir, d)
        if not os.path.isdir(p):
            continue
        for f in sorted(os.listdir(p)):
            if not f.endswith(".go") or f.endswith("_test.go"):
                continue
            if d == "zzvrt":
                rep[os.path.join(REPO, "zzvrt", f)] = os.path.join(p, f)
            else:
                rep[os.path.join(REPO, d, "zz_verif_" + f)] = os.path.join(p, f)
    rep.update(extra or {})
    return {"Replace": rep}


def apply_redirects(redirects, tmp):
    """Source rewrites used only for native replay: a method body is replaced by a call to a harness function
    (mirrors the engine's `call:` cuts)."""
    import re
    out = {}
    for r in redirects or []:
        src = os.path.join(REPO, r["file"])
        with open(src) as f:
            text = f.read()
        head = "func %s %s(" % (r["recv"], r["name"])
        if head not in text:
            continue
        text = text.replace(head, "func %s %s_verifOrig(" % (r["recv"], r["name"]))
        text += "\n// replay redirect (mirrors the engine cut)\nfunc %s %s(%s) %s { %s%s }\n" % (
            r["recv"], r["name"], r["params"], r["result"], "return " if r["result"] else "", r["target"])
        dst = os.path.join(tmp, os.path.basename(r["file"]))
        with open(dst, "w") as f:
            f.write(text)
        out[src] = dst
    return out


def write_replay(prop, pkg, entry, v, tape, expect, hang_s=8, redirects=None, attempts=1, race=False):
    """Writes the replay artefacts under /verif/out/<prop>/ and returns the path of the spec file."""
    odir = os.path.join(VERIF, "out", prop)
    os.makedirs(odir, exist_ok=True)
    h = hashlib.sha1(json.dumps([entry, v.get("kind"), v.get("id"), v.get("pos"), tape], sort_keys=True).encode()).hexdigest()[:12]
    test_path = os.path.join(odir, h + "_replay_test.go")
    tape_path = os.path.join(odir, h + "_tape.json")
    spec_path = os.path.join(odir, h + "_replay.json")
    with open(test_path, "w") as f:
        f.write(TEST_TMPL % {"pkg": pkg, "entry": entry, "hang_s": hang_s, "attempts": attempts})
    with open(tape_path, "w") as f:
        json.dump(tape, f, indent=1)
    spec = {"property": prop, "pkg": pkg, "entry": entry, "test": test_path, "tape": tape_path, "expect": expect, "redirects": redirects or [], "race": race,
            "violation": {k: v.get(k) for k in ("kind", "id", "msg", "pos", "func", "trace", "stack")}}
    with open(spec_path, "w") as f:
        json.dump(spec, f, indent=1)
    return spec_path


def run_replay(spec_path, timeout=180):
    """Runs a replay natively against /repo's current tree. Returns (reproduced, output)."""
    with open(spec_path) as f:
        spec = json.load(f)
    tmp = scratch_dir()
    try:
        extra = {os.path.join(REPO, spec["pkg"], "zz_verif_replay_test.go"): spec["test"]}
        extra.update(apply_redirects(spec.get("redirects"), tmp))
        ov = harness_overlay(extra)
        ovp = os.path.join(tmp, "overlay.json")
        with open(ovp, "w") as f:
            json.dump(ov, f)
        env = dict(GOENV, VERIF_TAPE=spec["tape"])
        cmd = ["go", "test", "-tags", "verif", "-vet=off", "-count=1", "-overlay", ovp, "-run", "^TestVerifReplay$", "-v", "./" + spec["pkg"]]
        if spec.get("race"):
            cmd.insert(2, "-race")
        try:
            r = subprocess.run(cmd, cwd=REPO, env=env, capture_output=True, text=True, timeout=timeout)
            out = r.stdout + r.stderr
        except subprocess.TimeoutExpired as e:
            out = "VERIF-HANG (go test timeout)\n" + (e.stdout or b"").decode("latin-1") if isinstance(e.stdout, bytes) else "VERIF-HANG (go test timeout)"
    finally:
        shutil.rmtree(tmp, ignore_errors=True)
    exp = spec["expect"]
    ok = all(s in out for s in exp.get("all", [])) and (not exp.get("any") or any(s in out for s in exp["any"]))
    # a tape that runs out after the expected failure was already observed is fine (the engine stopped recording
    # draws at the violation); a mismatch without the expected failure means the model was not realised
    return ok, out


def expect_for(v):
    k = v.get("kind")
    if k == "panic":
        key = {"index-out-of-range": "index out of range", "nil-deref": "nil pointer", "slice-bounds": "slice bounds",
               "send-on-closed-chan": "send on closed channel", "close-closed-chan": "close of closed channel",
               "close-nil-chan": "close of nil channel", "nil-map-write": "nil map", "div-zero": "divide by zero",
               "type-assert": "interface conversion", "rand-intn-nonpositive": "invalid argument to Intn",
               "unlock-unlocked": "unlock of unlocked"}.get(v.get("id"), "")
        return {"all": ["VERIF-PANIC"] + ([key] if key else [])}
    if k == "deadlock":
        return {"all": ["VERIF-HANG"]}
    return {"all": ["VERIF-ASSERT-FAILED: " + v.get("id", "")]}


# ---------------- evidence ----------------

def sha_sources(meta):
    return meta.get("source_sha256") or {}


def write_evidence(prop, ev):
    os.makedirs(os.path.join(VERIF, "evidence"), exist_ok=True)
    p = os.path.join(VERIF, "evidence", prop + ".json")
    with open(p, "w") as f:
        json.dump(ev, f, indent=1, default=str)
    return p


class Check:
    """Collects engine runs, classifies violations and produces the verdict for one property."""

    def __init__(self, prop, tier, level="model_checking"):
        self.prop = prop
        self.tier = tier
        CURRENT_TIER[0] = tier
        self.level = level
        self.t0 = time.time()
        self.runs = []
        self.known_hit = []
        self.violations = []   # (violation, replay path)
        self.spurious = []
        self.inconclusive = []
        self.notes = []
        self.assumptions = []
        self.bounds = {}
        self.samples = []
        self.covers_missing = []
        self.known = load_known()
        self.seed = int(os.environ.get("VERIF_SEED", "0") or 0)
        self.replays_run = 0
        self.replays_ok = 0
        self.extra = {}
        self.hard_incomplete = False
        # replay artefacts of earlier runs of this property are stale: start from an empty out/<ID>/
        shutil.rmtree(os.path.join(VERIF, "out", prop), ignore_errors=True)

    def add_run(self, name, results, meta, expect_covers=()):
        if results is None:
            self.inconclusive.append("engine failed for %s: %s" % (name, meta.get("error", "")[:2000]))
            self.runs.append({"name": name, "error": meta.get("error", "")[:2000]})
            return
        for entry, r in results.items():
            run = {"name": name, "entry": entry, "paths": r["paths"], "path_ends": r["path_ends"],
                   "queries": r["queries"], "solver_time_s": r["solver_time_s"], "wall_s": r["wall_s"],
                   "functions_encoded": r["functions_encoded"], "stubs": r["stubs_used"], "unmodelled_calls": r["unmodelled_calls"],
                   "incomplete": r["incomplete"], "unknown_branches": r["unknown_branches"], "covers": r["covers"],
                   "max_call_depth_seen": r["max_call_depth_seen"], "max_loop_iter_seen": r["max_loop_iter_seen"],
                   "sched_points": r.get("sched_points", 0), "steps": r["steps"], "solver": meta.get("solver"),
                   "n_violations": len(r["violations"] or [])}
            self.runs.append(run)
            for s in (r.get("samples") or [])[:2]:
                self.samples.append({"entry": entry, "path": s})
            if r["incomplete"]:
                self.inconclusive.append("%s: %s" % (entry, "; ".join(sorted(set(r["incomplete"]))[:5])))
                self.hard_incomplete = True
            if r["queries"].get("Unknown") or r["queries"].get("Errors"):
                self.inconclusive.append("%s: solver answered unknown/error %d/%d times" % (entry, r["queries"].get("Unknown", 0), r["queries"].get("Errors", 0)))
            for c in expect_covers:
                if not r["covers"].get(c):
                    self.covers_missing.append("%s:%s" % (entry, c))
        self.extra.setdefault("source_sha256", {}).update(sha_sources(meta))

    def classify(self, entry, v):
        """Returns the known-finding entry matching v, or None."""
        v = dict(v, entry=entry)
        for k in self.known:
            if matches(k, self.prop, v):
                return k
        return None

    def handle(self, pkg, entry, v, make_tape=None, hang_s=8, replay=True, expect=None, redirects=None, attempts=1, race=False):
        """Processes one engine violation: known finding, or replay and report."""
        if v.get("unknown"):
            self.inconclusive.append("%s: obligation %s/%s at %s undecided (solver unknown)" % (entry, v["kind"], v["id"], v["pos"]))
            return
        k = self.classify(entry, v)
        tape = make_tape(v) if make_tape else tape_from(v)
        spec = write_replay(self.prop, pkg, entry, v, tape, expect or expect_for(v), hang_s=hang_s, redirects=redirects, attempts=attempts, race=race)
        if k is not None:
            if not any(x["what"] == k["what"] for x in self.known_hit):
                # replay once per known finding to keep the file honest
                ok, out = (True, "")
                if replay:
                    self.replays_run += 1
                    ok, out = run_replay(spec)
                    self.replays_ok += 1 if ok else 0
                self.known_hit.append({"what": k["what"], "replay": spec, "reproduced": ok, "sample": _sample(v)})
            return
        key = (v["kind"], v["id"], short_func(v.get("func")))
        if v["kind"] == "race":
            key = (v["kind"], v["id"], "")
        if any(x["key"] == key for x in self.violations):
            return
        if sum(1 for x in self.spurious if x["key"] == key) >= 3:
            return
        ok, out = (True, "")
        if replay:
            self.replays_run += 1
            ok, out = run_replay(spec)
            self.replays_ok += 1 if ok else 0
        rec = {"key": key, "replay": spec, "violation": _sample(v), "replay_output_tail": out[-1500:]}
        if ok:
            self.violations.append(rec)
            self.spurious = [x for x in self.spurious if x["key"] != key]
        else:
            self.spurious.append(rec)

    def finish(self, coverage_extra=None):
        wall = time.time() - self.t0
        total_q = sum((r.get("queries") or {}).get(k, 0) for r in self.runs for k in ("Sat", "Unsat", "Unknown"))
        paths = sum(r.get("paths", 0) for r in self.runs)
        funcs = sorted({f for r in self.runs for f in (r.get("functions_encoded") or []) if "zz_verif" not in f and ".H_" not in f and "/zzvrt" not in f})
        cov = {
            "evaluations": max(total_q, 1),
            "distinct_nontrivial": max(paths, 0),
            "rule": "evaluations = SMT queries discharged; distinct_nontrivial = distinct feasible symbolic paths (decision vectors) executed to their end by the engine",
            "samples": self.samples[:6] + [k["sample"] for k in self.known_hit][:6],
            "states": max(paths, 1),
            "transitions": max(sum(r.get("steps", 0) for r in self.runs), 1),
            "traces_validated_against_impl": self.replays_ok,
            "explanation": "symbolic execution of the real functions from go/ssa; each feasible path's obligations decided by the SMT solver; counterexamples replayed natively",
            "functions_encoded": funcs,
            "bounds": self.bounds,
            "queries": {k: sum((r.get("queries") or {}).get(k, 0) for r in self.runs) for k in ("Sat", "Unsat", "Unknown", "Errors")},
            "solver_time_s": round(sum(r.get("solver_time_s", 0) for r in self.runs), 2),
            "runs": [{k: r.get(k) for k in ("name", "entry", "paths", "path_ends", "queries", "solver_time_s", "wall_s", "incomplete",
                                             "unknown_branches", "covers", "max_call_depth_seen", "max_loop_iter_seen", "sched_points",
                                             "stubs", "unmodelled_calls", "solver", "error")} for r in self.runs],
            "known_findings_hit": self.known_hit,
            "new_violations": self.violations,
            "spurious_counterexamples": self.spurious,
            "inconclusive": self.inconclusive,
            "cover_points_unreached": self.covers_missing,
            "replays_run": self.replays_run,
            "notes": self.notes,
        }
        cov.update(self.extra)
        cov.update(coverage_extra or {})
        if not cov["samples"]:
            cov["samples"] = [{"note": "no path sample recorded"}]
        ev = {"property_id": self.prop, "tier": self.tier, "seed": self.seed, "level": self.level, "coverage": cov,
              "assumptions": self.assumptions, "wall_s": round(wall, 2), "violations": len(self.violations)}
        write_evidence(self.prop, ev)
        for k in self.known_hit:
            print("KNOWN-FINDING: property=%s %s" % (self.prop, k["what"]))
        for s in self.spurious:
            print("note: counterexample %s did not reproduce natively (logged as spurious, see evidence)" % (s["key"],))
        for s in self.inconclusive:
            print("note: inconclusive: %s" % s)
        for c in self.covers_missing:
            print("note: cover point not reached: %s" % c)
        if self.violations:
            for v in self.violations:
                print("VIOLATION property=%s replay=%s" % (self.prop, v["replay"]))
            return 1
        engine_failed = any("error" in r for r in self.runs)
        if engine_failed:
            print("ERROR: the tree could not be encoded (see evidence)")
            return 2
        print("OK property=%s tier=%s paths=%d queries=%d wall=%.1fs" % (self.prop, self.tier, paths, total_q, wall))
        return 0


def _sample(v):
    return {k: v.get(k) for k in ("entry", "kind", "id", "msg", "pos", "func")} | {
        "draws": [(d["name"], d.get("value")) for d in (v.get("draws") or [])][:40],
        "trace": (v.get("trace") or [])[:30]}
