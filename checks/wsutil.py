"""Shared pieces of the websocket-layer checks (C12, C13)."""
import lib

G = "github.com/gorilla/websocket"
WS_CUTS = {
    "(*%s.Conn).ReadMessage" % G: "call:" + lib.MOD + "/ws.vReadMessage",
    "(*%s.Conn).WriteMessage" % G: "call:" + lib.MOD + "/ws.vWriteMessage",
    "(*%s.Conn).Close" % G: "call:" + lib.MOD + "/ws.vConnClose",
    "(*%s.Conn).SetReadDeadline" % G: "noop",
    "(*%s.Conn).SetWriteDeadline" % G: "noop",
    "(*%s.Conn).SetPongHandler" % G: "noop",
    G + ".FormatCloseMessage": "havoc",
}
WS_ASSUMPTIONS = [
    "SCHED: goroutines (both pumps, writers, closer, peer) are interleaved at synchronisation points; delay-bounded exploration: every schedule that deviates at most D times from round-robin is explored (Go semantics of mutex, Once, buffered/unbuffered channels, close, select)",
    "ENV: the gorilla *websocket.Conn is cut to harness functions: ReadMessage blocks until the peer thread provides a frame / error or Close is called, WriteMessage fails at a symbolic k-th call and after Close, Close is recorded; the ping ticker fires only where a scenario says so (C13: one tick with a failing PING write)",
    "the data processor calls CloseDataConnection(4001, \"\") from ReportConnectionError, as ShipConnection does",
    "native replay uses a real gorilla connection over a loopback socket with an injected write failure; schedule-dependent findings are reproduced by stress (many attempts), a finding that does not reproduce natively is logged as spurious",
]


def handle_ws(c, res, native_entry, prefixes):
    for e, r in (res or {}).items():
        if not r["covers"].get(prefixes[0].lower().rstrip(".") + ".end"):
            c.covers_missing.append(e + ":end")
        for v in r["violations"] or []:
            if v["kind"] in ("panic", "deadlock") or (v["kind"] == "assert" and any(v["id"].startswith(p) for p in prefixes)):
                # replay natively with the stress twin
                c.handle("ws", native_entry, dict(v, draws=[]), hang_s=120, expect={"any": ["VERIF-ASSERT-FAILED", "VERIF-PANIC"]})
