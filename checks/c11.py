"""C11: every connection end is accounted for exactly once and consistently."""
import lib
import hubstep
from shiputil import ship_tape
from shipstep import STEP_ASSUMPTIONS


def run(tier):
    c = lib.Check("C11", tier)
    c.assumptions = list(STEP_ASSUMPTIONS) + [
        "ship part: BMC over K events from every non-terminal rest state of a live connection (event alphabet: peer frame, local CloseConnection(safe,code,reason), connection error, payload write, timeout with an armed timer); pending close closures run after each event",
        "hub part: one HandleConnectionClosed step over an arbitrary registry (registered object / older object of the same SKI / other SKI)",
    ]
    k = 3 if tier == "thorough" else 2
    c.bounds = {"events_per_trace": k, "write_failures_per_trace": 1, "registry_skis": 2, "loop_unwind": 64}
    entry = "H_C11_Seq3" if tier == "thorough" else "H_C11_Seq2"
    res, meta = lib.run_engine("ship", [entry], sched="manual", cuts=lib.SHIP_CUTS, loop=64, paths=3000000)
    c.add_run("ship-seq", res, meta)
    if res:
        r = res[entry]
        if not r["covers"].get("c11.end"):
            c.covers_missing.append(entry + ":c11.end")
        for v in r["violations"] or []:
            if (v["kind"] == "assert" and v["id"].startswith("C11.")) or v["kind"] == "deadlock":
                c.handle("ship", entry, v, make_tape=ship_tape, hang_s=6)
    hubstep.run_hub(c, ["H_Hub_C11_Closed"], ("C11.",))
    # the real hub with real ship connections: ends accounted once, registry and notifications consistent after settling
    kc = 4
    c.bounds["composed_hub_ship_events"] = kc
    c.assumptions.append("composed part (H_C11_Compose): the real Hub with up to 3 real ShipConnections of one SKI (transport faked, handshake completion driven through the real approveHandshake), every sequence of up to %d events from {further incoming / outgoing connection through the double-connection check and registration, handshake completes, DisconnectSKI, UnregisterRemoteSKI, Shutdown, transport failure, handshake timeout, the 500 ms delays elapse}; goroutines that do not sleep run right after their event, sleeping ones when the harness lets time pass; after settling: no ended connection registered, no live connection unregistered, one disconnect notification per ended connection, last notification is setup iff a completed connection is registered" % kc)
    hubstep.run_hub(c, ["H_C11_Compose%d" % kc], ("C11.",), replay=True, extra_cuts=lib.SHIP_CUTS)
    # the same step racing the registration of a newer connection (two goroutines, delay-bounded schedules)
    res3, meta3 = lib.run_engine("hub", ["H_Hub_C11_CloseVsRegister"], sched="explore", preempt=4, cuts=hubstep.HUB_CUTS, loop=64)
    c.add_run("close-vs-register", res3, meta3)
    c.bounds["delay_bound_close_vs_register"] = 4
    for e, r in (res3 or {}).items():
        if not r["covers"].get("hub.end"):
            c.covers_missing.append(e + ":hub.end")
        for v in r["violations"] or []:
            if v["kind"] in ("assert", "panic", "deadlock"):
                c.handle("hub", e, v, replay=False)
    return c.finish()
