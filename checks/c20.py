"""C20: the public API is free of data races under concurrent use."""
import lib
import hubstep


def race_expect(v):
    """The race detector has to report this very pair of source lines (other races in the same run do not count)."""
    m = v["id"][len("race:"):].split("~")
    # both source files must occur in the report and at least one of the two exact lines (an access the engine could
    # only attribute to its function is reported by the detector with its real line)
    return {"all": ["DATA RACE"] + ["/repo/" + x.split(":")[0] + ":" for x in m], "any": ["/repo/" + x + " " for x in m]}


def run(tier):
    c = lib.Check("C20", tier)
    c.assumptions = [
        "LOCKSET: for every pair of entry points that may run on different goroutines the engine executes both (symbolic inputs) on one shared object graph, records every heap / map access with the set of mutexes held, and reports pairs of accesses to the same location from different goroutines with at least one write and no common lock; ordering through `go` (spawn after write) and initialisation of objects allocated during the run (Eraser's exclusive phase) are taken into account, channel hand-offs are not",
        "every candidate is confirmed natively: the same harness, with the same operations, runs the two entry points on two real goroutines under the Go race detector (go test -race); only candidates on which the detector reports DATA RACE are violations",
        "util.DeepCopy (json round trip) is modelled as a deep copy with fresh slices; slices.SortFunc / sort.Slice write every element of their argument",
        "entry points: hub API calls, connection callbacks, mDNS reports and delayed dial (hub); frame handler, timer expiry, approve/abort, close, payload write, state query, connection error (ship); writer / closer / closed-query against both pumps (ws); resolver callback vs announce / unannounce / auto-accept / request / QR text (mdns manager)",
    ]
    c.bounds = {"entry_points_per_query": 2, "loop_unwind": 64}
    runs = [
        ("hub", ["H_C20_Hub"], hubstep.HUB_CUTS, hubstep.HUB_REDIRECTS, {}),
        ("mdns", ["H_C20_Mdns"], {lib.MOD + "/util.DeepCopy": "noop", "(net.IP).String": "uf", "(net.IP).To4": "uf", "(net.IP).IsLinkLocalUnicast": "uf"}, None, {}),
    ]
    import wsutil
    runs.append(("ws", ["H_C20_Ws"], wsutil.WS_CUTS, None, {}))
    # the real manager reporting to a real hub (snapshot must not share memory with the registry)
    runs.append(("mdns", ["H_C20_MdnsHub"], {lib.MOD + "/util.DeepCopy": "deepcopy",
                                            "(*" + lib.MOD + "/hub.Hub).connectFoundService": "call:" + lib.MOD + "/mdns.vNoDial"}, None, {}))
    for pkg, entries, cuts, redirects, opts in runs:
        res, meta = lib.run_engine(pkg, entries, sched="seq", cuts=cuts, loop=64)
        c.add_run("lockset-" + pkg, res, meta)
        for e, r in (res or {}).items():
            if not r["covers"].get("c20.end"):
                c.covers_missing.append(e + ":c20.end")
            for v in r["violations"] or []:
                if v["kind"] == "race":
                    tape = None
                    if pkg == "ship":
                        from shiputil import ship_tape
                        tape = ship_tape
                    native = "H_C20_Ws_Native" if pkg == "ws" else e
                    vv = dict(v, draws=[]) if pkg == "ws" else v
                    c.handle(pkg, native, vv, make_tape=tape, race=True, hang_s=60, expect=race_expect(v) if pkg != "ws" else {"all": ["DATA RACE"]}, redirects=redirects)
    ship_races(c)
    return c.finish()


SHIP_OPS = ["msg", "timeout", "approve", "abort", "close", "write", "statequery", "connerr"]
# entry points that never run concurrently with themselves: frames are handled one at a time by the read pump,
# only the current timer delivers a timeout (C14)
SELF_EXCLUSIVE = {"msg", "timeout"}


def ship_races(c):
    """ship: per-entry access summaries (location, write, locks) compared pairwise, then each candidate pair is
    re-executed on two goroutines (engine) and confirmed under the race detector (native)."""
    from shiputil import ship_tape
    res, meta = lib.run_engine("ship", ["H_C20_ShipOp"], sched="manual", cuts=lib.SHIP_CUTS, loop=64)
    c.add_run("lockset-ship-summaries", res, meta)
    if not res:
        return
    r = res["H_C20_ShipOp"]
    if not r["covers"].get("c20.end"):
        c.covers_missing.append("H_C20_ShipOp:c20.end")
    by = {}
    for k in (r.get("facts") or {}):
        if not k.startswith("acc|"):
            continue
        _, tag, loc, name, w, locks, pos, fn = k.split("|")
        op, state, role, tt = tag.split("@")
        by.setdefault((state, role, tt), {}).setdefault(op, set()).add((loc, name, w, frozenset(x for x in locks.split(",") if x), pos))
    cands = {}
    for ctx, ops in by.items():
        names = sorted(ops)
        for i, a in enumerate(names):
            for b in names[i:]:
                if a == b and a in SELF_EXCLUSIVE:
                    continue
                for x in ops[a]:
                    for y in ops[b]:
                        if x[0] == y[0] and (x[2] == "1" or y[2] == "1") and not (x[3] & y[3]):
                            cands.setdefault(x[1], []).append((ctx, a, b, x[4], y[4]))
    c.extra["ship_lockset_candidates"] = {k: len(v) for k, v in cands.items()}
    c.extra["ship_access_summaries"] = sum(len(o) for ops in by.values() for o in ops.values())
    for name, lst in sorted(cands.items()):
        confirmed = 0
        # distinct (context, operation pair) combinations, pairs of different operations first (an operation racing with
        # itself often turns into a no-op for the second caller); at most 6 combinations per location
        combos = sorted({(ctx, a, b) for ctx, a, b, _, _ in lst}, key=lambda t: (t[1] == t[2], t))
        for ctx, a, b in combos[:6]:
            params = ["-param", "a=%d" % SHIP_OPS.index(a), "-param", "b=%d" % SHIP_OPS.index(b), "-param", "state=" + ctx[0],
                      "-param", "role=" + ctx[1], "-param", "timertype=" + ctx[2]]
            res2, meta2 = lib.run_engine("ship", ["H_C20_ShipPair"], sched="manual", cuts=lib.SHIP_CUTS, loop=64, workers=4, extra=params)
            c.add_run("lockset-ship-pair", res2, meta2)
            for v in (res2 or {}).get("H_C20_ShipPair", {}).get("violations") or []:
                if v["kind"] == "race" and name.split(".")[-1] in v["msg"]:
                    before = len(c.violations) + len(c.known_hit)
                    c.handle("ship", "H_C20_ShipPair", v, make_tape=ship_tape, race=True, hang_s=60, expect=race_expect(v))
                    if len(c.violations) + len(c.known_hit) > before:
                        confirmed += 1
                    break
            if confirmed:
                break
