"""C15: hub operations are invariant under SKI formatting."""
import lib
import hubstep


def c15_tape(v):
    m = v.get("model") or {}
    x = m.get("ski.spelling")
    n = m.get("ext.NormalizeSKI")
    # N is uninterpreted in the encoding: any spelling with N(x) != x realises the model; pick a fixed one
    spelling = b"AABB-CCDD eeff-0011" if x != n else b"aabbccddeeff0011"
    return lib.tape_from(v, {"ski.spelling": spelling})


def run(tier):
    c = lib.Check("C15", tier)
    c.assumptions = [
        "N-UF: util.NormalizeSKI is an uninterpreted idempotent function N in the metamorphic query (covers every SKI and every spelling, unbounded length); its string-level lemmas (idempotence, removal of ' ' and '-', case folding) are decided on the real function with cvc5 for ASCII spellings up to the stated length",
        "metamorphic oracle: from the same hub state (service record / registered connection in any handshake state / attempt counter under the canonical key), op(x) and op(N(x)) must produce equal return values, post-states and recorded effects (SKI arguments compared modulo N)",
        "operations atomic; fakes for mDNS, application, connections; dial cut to a ghost event",
    ]
    c.bounds = {"operations_per_query": 1, "skis": "one canonical key, spelling unconstrained", "lemma_string_len_max": 10}
    cuts = {lib.MOD + "/util.NormalizeSKI": "ufidem"}
    res, meta = lib.run_engine("hub", ["H_Hub_C15"], sched="manual", cuts=dict(hubstep.HUB_CUTS, **cuts), loop=64)
    c.add_run("hub-metamorphic", res, meta)
    if res:
        r = res["H_Hub_C15"]
        if not r["covers"].get("hub.end"):
            c.covers_missing.append("H_Hub_C15:hub.end")
        for v in r["violations"] or []:
            if v["kind"] == "assert" and v["id"].startswith("C15."):
                c.handle("hub", "H_Hub_C15", v, make_tape=c15_tape, redirects=hubstep.HUB_REDIRECTS)
    # lemmas on the real NormalizeSKI: strings as bounded byte vectors (QF_BV, z3)
    n1 = 8 if tier == "thorough" else 6
    res2, meta2 = lib.run_engine("util", ["H_C15_Lemma_Idem", "H_C15_Lemma_Case", "H_C15_Lemma_Sep"], sched="seq", solver="z3",
                                 maxstr=n1, workers=1, timeout_ms=300000, extra=["-bvstr"])
    c.add_run("normalize-lemmas", res2, meta2)
    c.bounds["lemma_string_len_max"] = n1
    c.bounds["lemma_two_strings_len_max"] = "4+4"
    if res2:
        for e, r in res2.items():
            if not r["covers"].get("lemma.end"):
                c.covers_missing.append(e + ":lemma.end")
            for v in r["violations"] or []:
                if v["kind"] == "assert":
                    c.handle("util", e, v)
    return c.finish()
