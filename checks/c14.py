"""C14: a stopped or replaced handshake timer never fires."""
import lib

C14_CUTS = {"(*" + lib.MOD + "/ship.ShipConnection).handleState": "call:" + lib.MOD + "/ship.vHandleState"}
C14_REDIRECTS = [{"file": "ship/handshake.go", "recv": "(c *ShipConnection)", "name": "handleState",
                  "params": "timeout bool, message []byte", "result": "", "target": "vHandleState(c, timeout, message)"}]


def run(tier):
    c = lib.Check("C14", tier)
    c.assumptions = [
        "SCHED: goroutines are interleaved at synchronisation points (mutex, channel, select, go, defer of these); every schedule with at most P preemptions is explored by the executor (decision vectors), Go channel semantics incl. unbuffered rendezvous and select/default",
        "CLOCK: no timer elapses while the arm/stop program runs and until all goroutines are parked ('stopped well before expiry'); afterwards every pending time.After fires",
        "CUT: ShipConnection.handleState is replaced by a recorder of timeout deliveries (the reaction to a timeout is C01/C04's subject)",
        "symbolic-time part (H_C14_SymTime): time is a solver variable - both timer durations (short 5..60 s, long >= short+10 s, <= 120 s) and the pause before every operation (0..30 s) are symbolic, time.After(d) expires at clock+d and the solver decides at every scheduling point which timers may have expired (both outcomes explored when both are feasible); oracle: every delivered timeout is attributable to a timer that had expired and was still current at its expiry instant, a timer left armed eventually delivers, no more deliveries than arms, no timer goroutine left",
        "abstract-clock parts (H_C14_Timer*, H_C14_Concurrent): no data symbols, the deciding step there is the exhaustive bounded exploration of schedules and arm/stop programs by the engine",
    ]
    c.assumptions.append("concurrent part (H_C14_Concurrent): two goroutines arm (short / long, different timer types) and optionally stop at the same time; the timer the connection reports as current once both are done is the only one that may deliver, at its own deadline")
    ops = 3
    pre = 4 if tier == "thorough" else 3
    c.bounds = {"symbolic_time_operations": 3 if tier == "thorough" else 2, "arm_stop_operations": ops, "preemption_bound": pre, "timer_goroutines": ops}
    entries = ["H_C14_Timer2", "H_C14_Timer3", "H_C14_Concurrent", "H_C14_SymTime2"] + (["H_C14_Timer4", "H_C14_SymTime3"] if tier == "thorough" else [])
    res, meta = lib.run_engine("ship", entries, sched="explore", preempt=pre, cuts=C14_CUTS, loop=80, paths=3000000)
    c.add_run("timer-schedules", res, meta)
    for e, r in (res or {}).items():
        if not r["covers"].get("c14.end"):
            c.covers_missing.append(e + ":c14.end")
        for v in r["violations"] or []:
            if v["kind"] in ("assert", "panic", "deadlock"):
                exp = None
                if v["kind"] == "assert":
                    exp = {"all": ["VERIF-ASSERT-FAILED: " + v["id"]]}
                c.handle("ship", e, v, hang_s=30, redirects=C14_REDIRECTS, attempts=20, expect=exp)
    return c.finish()
