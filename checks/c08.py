"""C08: no peer-controlled input can crash or wedge the process."""
import lib
from shiputil import ship_tape


def run(tier):
    c = lib.Check("C08", tier)
    c.assumptions = [
        "JSON-AM: encoding/json.Unmarshal may return any value of the target type or an error (same text, same answer); empty input is an error; every counterexample is rebuilt as real bytes and re-parsed by the real decoder in the replay",
        "CUTS: ship.JsonFromEEBUSJson / JsonIntoEEBUSJson are uninterpreted functions here (they are C07's subject); constant inputs run the real body",
        "ATOMIC-H: one event runs to completion before the next; goroutines spawned by the event (delayed close closures) run afterwards",
        "pre-state over-approximation: every field of ShipConnection arbitrary (state 0..39, timer flags, Once done or not, reader set or not, buffer 0..B, transport closed or not)",
        "APP: SetupRemoteDevice returns a non-nil reader; LOG-NOP",
    ]
    c.bounds = {"events_per_run": 1, "pre_buffer_len_max": 1, "parsed_slice_len_max": 2, "call_depth": 40, "loop_unwind": 8,
                "write_failures_per_step": 1}
    res, meta = lib.run_engine("ship", ["H_C08_Step", "H_C08_ShortFrames"], sched="manual", cuts=lib.SHIP_CUTS)
    c.add_run("ship-step", res, meta, expect_covers=())
    if res:
        for cov, entry in (("c08.step.end", "H_C08_Step"), ("c08.short.end", "H_C08_ShortFrames")):
            if not res[entry]["covers"].get(cov):
                c.covers_missing.append(entry + ":" + cov)
        for entry, r in res.items():
            for v in r["violations"] or []:
                if v["kind"] == "unwind":
                    # recursion deeper than the bound on a feasible path: a candidate for unbounded recursion on peer input
                    c.handle("ship", entry, v, make_tape=ship_tape, hang_s=6,
                             expect={"any": ["VERIF-HANG", "stack overflow", "goroutine stack exceeds"]})
                    continue
                c.handle("ship", entry, v, make_tape=ship_tape, hang_s=6)
    # composition: real websocket layer + real SHIP connection (obligations between the layers, e.g. no synchronous
    # call back into the SHIP connection from CloseDataConnection, which runs inside CloseConnection's sync.Once)
    import wsutil
    cuts = dict(lib.SHIP_CUTS)
    cuts.update(wsutil.WS_CUTS)
    runs = [("ws+ship", 0, 2)] + ([("ws+ship-d2-1frame", 2, 1)] if tier == "thorough" else [])
    for name, d, frames in runs:
        res3, meta3 = lib.run_engine("ws", ["H_C08_WsShip"], sched="explore", preempt=d, cuts=cuts, loop=40, paths=400000,
                                     extra=["-param", "frames=%d" % frames])
        c.add_run(name, res3, meta3)
        c.bounds["wsship_" + name] = {"peer_frames": frames, "delay_bound": d, "failing_write": "symbolic k-th (0..4)"}
        if res3:
            r = res3["H_C08_WsShip"]
            if not r["covers"].get("c08.wsship.end"):
                c.covers_missing.append("H_C08_WsShip:c08.wsship.end")
            for v in r["violations"] or []:
                if v["kind"] in ("panic", "deadlock") or (v["kind"] == "assert" and v["id"].startswith("C08.")):
                    # the peer frames of the counterexample are rebuilt as real bytes and sent by the native twin's peer
                    vv = dict(v, draws=[d for d in v.get("draws") or [] if d["name"] == "msg"])
                    c.handle("ws", "H_C08_WsShip_Native", vv, make_tape=ship_tape, hang_s=150,
                             expect={"any": ["VERIF-ASSERT-FAILED", "VERIF-PANIC", "VERIF-HANG"]})
    c.assumptions.append("COMPOSED: H_C08_WsShip runs the real ws.WebsocketConnection (gorilla conn cut to harness functions, WS ENV as in C12/C13) under the real ship.ShipConnection; handshake timers do not elapse on their own, delayed closes (<= 2 s) are fired; findings are replayed on a real loopback websocket (H_C08_WsShip_Native)")
    # mDNS resolver input (TXT items, element maps, address lists, ports)
    from c17 import MDNS_CUTS
    res2, meta2 = lib.run_engine("mdns", ["H_C08_Mdns"], sched="manual", cuts=MDNS_CUTS, loop=80, solver="z3-new", maxstr=6, extra=["-bvstr"])
    c.bounds["mdns_txt_item_len_max"] = 6
    c.bounds["mdns_txt_items_max"] = 3
    c.add_run("mdns-resolver", res2, meta2)
    if res2:
        r = res2["H_C08_Mdns"]
        if not r["covers"].get("c08.mdns.end"):
            c.covers_missing.append("H_C08_Mdns:c08.mdns.end")
        for v in r["violations"] or []:
            c.handle("mdns", "H_C08_Mdns", v, hang_s=6)
    return c.finish()
