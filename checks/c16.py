"""C16: what a service announces via mDNS is what a ship-go browser reads back; QR text round trip."""
import lib


def run(tier):
    c = lib.Check("C16", tier)
    n = 8
    c.assumptions = [
        "BV-STR: strings are byte vectors of bounded capacity with symbolic length (QF_BV); strings.Split / SplitN / ReplaceAll / Index / Count / HasPrefix and fmt's %s %v %d are exact encodings for the forms used (Split: up to 3 separators, unwinding assertion beyond)",
        "one configuration string symbolic per query (SKI, identifier, brand, model, type, serial in turn), all 256 byte values, the others fixed; UTF-8 validity is the exact utf8.ValidString automaton",
        "fake api.MdnsProviderInterface captures (name, port, txt); the browser side is a second MdnsManager fed with parseTxt of the captured record",
        "history part (H_C16_Seq): every sequence of up to N operations from {announce, unannounce, set auto-accept true/false} with a fixed configuration; after each operation the record live at the provider must read back as the current auto-accept flag and the configured data",
        "closed part (H_C16_Fixed): 10 concrete values (blanks at either end, a blank at the truncation boundary, '=' ':' ',' and a tab inside, 32/33/37 bytes, non-ASCII) in each of the six configuration strings; concrete execution of the real code by the engine, labelled as such",
        "QR oracle: the text must equal the reference printer refQR (harness/mdns/c16.go), which strips ';' from every value and therefore parses back unambiguously under the SHIP;KEY:value;..ENDSHIP; grammar",
    ]
    c.bounds = {"truncation_input_len_max": 35, "roundtrip_string_len_max": 6, "qr_string_len_max": 6, "categories_max": 2,
                "category_value_max": 99, "announce_unannounce_autoaccept_history_len": 5 if tier == "thorough" else 4, "port": "0..65535", "loop_unwind": 80}
    # closed and history parts first (cheap, concrete or nearly so), then the symbolic string queries under their own budget
    seq = "H_C16_Seq4" if tier != "thorough" else "H_C16_Seq5"
    resf, metaf = lib.run_engine("mdns", ["H_C16_Fixed"], sched="seq", solver="z3-new", maxstr=n, workers=8, timeout_ms=60000, loop=80,
                                 extra=["-bvstr"], deadline=300)
    c.add_run("mdns-closed", resf, metaf)
    res0, meta0 = lib.run_engine("mdns", [seq], sched="seq", solver="z3-new", maxstr=n, workers=8, timeout_ms=60000, loop=80,
                                 extra=["-bvstr"], deadline=600)
    c.add_run("mdns-history", res0, meta0)
    res0 = dict(res0 or {})
    res0.update(resf or {})
    res, meta = lib.run_engine("mdns", ["H_C16_Shorten", "H_C16_Txt", "H_C16_Cats", "H_C16_QR"], sched="seq", solver="z3-new", maxstr=n,
                               workers=8, timeout_ms=60000, loop=80, extra=["-bvstr"], deadline=600 if tier != "thorough" else 3600)
    c.add_run("mdns-strings", res, meta)
    res = dict(res or {})
    res.update(res0 or {})
    for e, r in (res or {}).items():
        if not r["covers"].get("c16.end"):
            c.covers_missing.append(e + ":c16.end")
        # the Split bound is a stated bound, not an inconclusive result
        c.inconclusive = [x for x in c.inconclusive if "strings.Split: more than 3 separators" not in x or "; " in x.split(": ", 1)[-1]]
        for v in r["violations"] or []:
            if v["kind"] in ("assert", "panic"):
                c.handle("mdns", e, v)
    return c.finish()
