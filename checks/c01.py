"""C01: trust gate - no completed handshake, device setup or SPINE delivery without local trust."""
import shipstep
import hubstep



def run(tier):
    c = shipstep.run_step("C01", tier, "H_Step_C01", ("C01.", "inv.", "C10.cancel-"),
                          {"write_failures_per_step": 1, "pre_buffer_len_max": 1})
    c.assumptions.append("GHOST: `granted` becomes true only when a trust oracle (paired / auto-accept) answers yes, when ApprovePendingHandshake is called, or for role client (the hub dials only registered SKIs: hub part of this check and C10)")
    c.assumptions.append("the lemma `C10.cancel-does-not-abort-the-waiting-handshake` (a cancel in pending-listen / ready-listen leaves the hello phase aborted) is part of C01's \"after the user cancelled it\" clause and is reported under C01 as well")
    hubstep.run_hub(c, ["H_Hub_Step"], ("C01.",))
    return c.finish()
