"""C12: writing to a connection that is closing never panics or hangs."""
import lib
import wsutil


def run(tier):
    c = lib.Check("C12", tier)
    d = 3
    c.assumptions = list(wsutil.WS_ASSUMPTIONS)
    c.bounds = {"writers_x_messages": ["1x2", "1x3"] + (["2x1", "2x2", "3x1"] if tier == "thorough" else []), "delay_bound": d,
                "closing_events": "none / local close without reason / with reason / peer close or EOF, plus a write failure at the k-th write (k symbolic 0..3)"}
    entries = ["H_C12_W1x2", "H_C12_W1x3"] + (["H_C12_W2x1", "H_C12_W2x2", "H_C12_W3x1"] if tier == "thorough" else [])
    res, meta = lib.run_engine("ws", entries, sched="explore", preempt=d, cuts=wsutil.WS_CUTS, loop=40, paths=5000000)
    c.add_run("write-vs-close", res, meta)
    if tier == "thorough":
        # one more delay for the two smallest configurations (the 5-configuration sweep at D=4 needs > 2 h)
        c.bounds["delay_bound_small_configurations"] = 4
        res4, meta4 = lib.run_engine("ws", ["H_C12_W1x2", "H_C12_W2x1"], sched="explore", preempt=4, cuts=wsutil.WS_CUTS, loop=40, paths=8000000)
        c.add_run("write-vs-close-d4", res4, meta4)
        wsutil.handle_ws(c, res4, "H_C12_Native", ("C12.",))
    wsutil.handle_ws(c, res, "H_C12_Native", ("C12.",))
    return c.finish()
