"""C19: mDNS via Avahi survives daemon restarts without stale or lost announcements."""
import lib

C19_CUTS = {lib.MOD + "/util.DeepCopy": "noop", "net.ParseIP": "call:" + lib.MOD + "/mdns.vParseIP", "(net.IP).IsUnspecified": "noop"}


def run(tier):
    c = lib.Check("C19", tier)
    d = 4 if tier == "thorough" else 3
    c.assumptions = [
        "fake avahi.ServerInterface / EntryGroupInterface / ServiceBrowserInterface installed in the provider's unexported avServer field: every call fails while the daemon is down, objects registered with a daemon are lost when it goes away, committed groups keep their TXT data",
        "scenario family: Start + Announce(v=1); Disconnected event delivered on its own goroutine; during the outage the application (own goroutine) performs one of announce(v=2) / unannounce / shutdown / nothing; 0..1 failed retries (the retry delay elapses only when the harness fires the timers); daemon back; quiescence; a service resolved afterwards",
        "SCHED: delay-bounded exploration of the application, event, reconnect and listener goroutines (Go semantics of mutex, channels, close, select)",
        "native replay is not available for this property (needs a D-Bus Avahi daemon); counterexamples are reported from the encoding",
    ]
    c.bounds = {"daemon_disconnects": 1, "failed_retries_max": 1, "application_operations_during_outage": 1, "delay_bound": d}
    res, meta = lib.run_engine("mdns", ["H_C19_Restart", "H_C19_Shutdown"], sched="explore", preempt=d, cuts=C19_CUTS, loop=30, paths=3000000)
    c.add_run("avahi-restart", res, meta)
    for e, r in (res or {}).items():
        if not r["covers"].get("c19.end"):
            c.covers_missing.append(e + ":c19.end")
        for v in r["violations"] or []:
            if v["kind"] in ("assert", "panic", "deadlock"):
                c.handle("mdns", e, v, replay=False)
    return c.finish()
