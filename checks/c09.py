"""C09: a known SHIP ID is pinned to its SKI; a new one is reported once, before setup."""
import shipstep



def run(tier):
    c = shipstep.run_step("C09", tier, "H_Step_C09", ("C09.",), {"write_failures_per_step": 0, "pre_buffer_len_max": 0})
    import c02
    import lib
    res, meta = lib.run_engine("hub", ["H_C02_Inbound", "H_C02_Outbound"], sched="manual", cuts=c02.C02_CUTS, solver="z3-new", maxstr=40, loop=80, extra=["-bvstr"], timeout_ms=60000)
    c.add_run("hub-call-sites", res, meta)
    for e, r in (res or {}).items():
        for v in r["violations"] or []:
            if v["kind"] == "assert" and v["id"].startswith("C09."):
                c.handle("hub", e, v, replay=False)
    # hub part: one step of every hub operation (mDNS report, state update, register, ...) leaves a SHIP ID the application
    # supplied for a service untouched (the ship layer compares against exactly that stored value)
    import hubstep
    c.assumptions.append("hub step (H_Hub_Step, shared with C10/C01): arbitrary hub state with a service whose SHIP ID was supplied by the application; no hub operation - in particular no mDNS report carrying another identifier - changes it")
    hubstep.run_hub(c, ["H_Hub_Step"], ("C09.",))
    return c.finish()
