"""C09: a known SHIP ID is pinned to its SKI; a new one is reported once, before setup."""
import shipstep



def run(tier):
    c = shipstep.run_step("C09", tier, "H_Step_C09", ("C09.",), {"write_failures_per_step": 0, "pre_buffer_len_max": 0})
    # hub part added below when built
    return c.finish()
