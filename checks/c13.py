"""C13: transport loss is reported and releases goroutines and the socket."""
import lib
import wsutil


def run(tier):
    c = lib.Check("C13", tier)
    d = 3  # thorough adds the 2-frame configuration at the same delay bound (D=4 with the failing-ping / close-frame scenarios and the one-writer rule did not finish within 90 min)
    c.assumptions = list(wsutil.WS_ASSUMPTIONS) + [
        "ORACLE at quiescence: read error / peer close => error reported (at most once) and closed-query answers (true, non-nil); write failure at the k-th write (if reached) likewise; local close => no error reported; no frame read after the closed flag was set is delivered; both pumps terminated, conn.Close() called, no writer blocked",
    ]
    c.bounds = {"incoming_frames_max": 2 if tier == "thorough" else 1, "outgoing_messages": 2, "delay_bound": d, "fault_position": "k-th data write, k symbolic in 1..2; the close frame of a local close; a PING after one ping period; read error after 0..n frames"}
    entries = ["H_C13_F1W2"] + (["H_C13_F2W2"] if tier == "thorough" else [])
    res, meta = lib.run_engine("ws", entries, sched="explore", preempt=d, cuts=wsutil.WS_CUTS, loop=40, paths=5000000)
    c.add_run("transport-loss", res, meta)
    wsutil.handle_ws(c, res, "H_C13_Native", ("C13.",))
    return c.finish()
