"""C18: pairing-state notifications end with the current state."""
import lib
import hubstep


def run(tier):
    c = lib.Check("C18", tier)
    d = 5 if tier == "thorough" else 4
    c.assumptions = [
        "sequential part: 2 consecutive state reports for one SKI with arbitrary reportable states and optional error, notification closures fired in creation order: the stored detail equals the map of the last report (Error when an error is attached), PairingDetailForSki answers the same, and the last delivered notification equals it",
        "API part (H_C18_Api): one or two state reports whose notifications are still in their delay, then RegisterRemoteSKI / UnregisterRemoteSKI / CancelPairingWithSKI for the same SKI, then the delays elapse: the last notification equals PairingDetailForSki",
        "ordering part: two state changes whose notification delays have both elapsed, every delay-bounded scheduling of the two notification goroutines and the reporting goroutine: the application never sees the older state after the newer one",
        "fakes for application, mDNS; operations atomic except for the notification goroutines; the mapping table itself is compared with nothing but its use (hello-ok => trusted)",
    ]
    c.bounds = {"state_changes_per_ski": 2, "notification_goroutines": 2, "delay_bound": d}
    res = hubstep.run_hub(c, ["H_C18_Seq", "H_C18_Pending", "H_C18_Api"], ("C18.",), replay=True)
    res2, meta2 = lib.run_engine("hub", ["H_C18_Order"], sched="explore", preempt=d, cuts=hubstep.HUB_CUTS, loop=64)
    c.add_run("notification-order", res2, meta2)
    for e, r in (res2 or {}).items():
        if not r["covers"].get("hub.end"):
            c.covers_missing.append(e + ":hub.end")
        for v in r["violations"] or []:
            if v["kind"] in ("assert", "panic", "deadlock"):
                # the inversion needs the older goroutine to be descheduled between its timer and the callback: it cannot be
                # forced from outside the library and does not show up under native stress, so it is reported from the encoding
                c.handle("hub", e, v, replay=False)
    return c.finish()
