"""Driver for hub-level harness entries (package hub)."""
import lib

HUB_CUTS = {
    "(*" + lib.MOD + "/hub.Hub).connectFoundService": "call:" + lib.MOD + "/hub.vDial",
}


HUB_REDIRECTS = [{"file": "hub/hub_connections.go", "recv": "(h *Hub)", "name": "connectFoundService",
                  "params": "remoteService *api.ServiceDetails, host, port, path string", "result": "error",
                  "target": "vDial(h, remoteService, host, port, path)"}]


def run_hub(c, entries, id_prefixes, cuts=None, loop=64, sched="manual", replay=True, solver="z3", extra_cuts=None):
    cc = dict(HUB_CUTS)
    cc.update(extra_cuts or {})
    res, meta = lib.run_engine("hub", entries, sched=sched, cuts=cc if cuts is None else cuts, loop=loop, solver=solver)
    c.add_run("hub-step", res, meta)
    if not res:
        return None
    for e, r in res.items():
        if not r["covers"].get("hub.end"):
            c.covers_missing.append(e + ":hub.end")
        c.extra.setdefault("facts", {})[e] = sorted((r.get("facts") or {}).keys())
        for v in r["violations"] or []:
            if v["kind"] != "assert" or not any(v["id"].startswith(p) for p in id_prefixes):
                continue
            c.handle("hub", e, v, hang_s=8, replay=replay, redirects=HUB_REDIRECTS)
    return res
