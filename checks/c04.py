"""C04: handshake states follow the SHIP state graph; terminal outcomes are final."""
import shipstep


def run(tier):
    c = shipstep.run_step("C04", tier, "H_Step_C04", ("C04.", "inv."),
                          {"write_failures_per_step": 1, "pre_buffer_len_max": 0})
    c.assumptions.append("ORACLE: state graph of DESIGN.md appendix A (edgeOK/isTerminal/isProgress in harness/ship/step.go); an Error report is allowed from every state")
    return c.finish()
