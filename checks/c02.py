"""C02: every connection is bound to the SKI of the presented certificate."""
import lib

G = "github.com/gorilla/websocket"
H = lib.MOD + "/hub."
C02_CUTS = {
    "(*%s.Upgrader).Upgrade" % G: "call:" + H + "vUpgrade",
    "(*%s.Conn).Subprotocol" % G: "call:" + H + "vSubprotocol",
    "(*%s.Conn).Close" % G: "call:" + H + "vWsClose",
    "(*%s.Conn).WriteMessage" % G: "call:" + H + "vWsWrite",
    "(*%s.Dialer).Dial" % G: "call:" + H + "vDialWS",
    "(*%s.Conn).UnderlyingConn" % G: "call:" + H + "vUnderlying",
    "(*crypto/tls.Conn).ConnectionState": "call:" + H + "vConnState",
    "crypto/sha1.Sum": "call:" + H + "vSha1",
    "crypto/x509.ParseCertificate": "call:" + H + "vParseCert",
    "(*%s.Conn).SetReadDeadline" % G: "noop",
    "(*%s.Conn).SetPongHandler" % G: "noop",
}


def run(tier):
    c = lib.Check("C02", tier)
    c.assumptions = [
        "TLS-LIB: crypto/tls enforces ClientAuth / MinVersion / VerifyPeerCertificate as configured, gorilla negotiates the configured sub-protocol, x509 preserves SubjectKeyId: only the decision logic and the configuration values of ship-go are decided here",
        "ENV: Upgrader.Upgrade, Conn.Subprotocol/Close/WriteMessage/UnderlyingConn, Dialer.Dial, tls.Conn.ConnectionState, x509.ParseCertificate are cut to harness functions returning symbolic results (error or not, arbitrary sub-protocol string, 0..2 peer certificates with SKI absent or 0/19/20/21 bytes)",
        "SHA-1 is an uninterpreted value: crypto/sha1.Sum is cut to return the harness's 20 symbolic bytes keyHash (what the hash of the presented public key would be); the code would have to compare the SKI with it",
        "BV-STR: SKI texts are byte vectors (fmt %0x, NormalizeSKI exact)",
        "inbound / outbound counterexamples cannot be replayed natively (they need a live TLS websocket peer); they are reported from the encoding alone, the SkiFromCertificate ones are replayed",
    ]
    c.bounds = {"peer_certificates_max": 2, "ski_lengths": [0, 19, 20, 21, "absent"], "ski_bytes": "symbolic in H_C02_Ski, concrete distinct per certificate in the inbound/outbound runs"}
    res, meta = lib.run_engine("hub", ["H_C02_Ski", "H_C02_TLSConfig", "H_C02_Inbound", "H_C02_Outbound"], sched="manual", cuts=C02_CUTS,
                               solver="z3-new", maxstr=40, loop=80, extra=["-bvstr"], timeout_ms=60000)
    c.add_run("identity-logic", res, meta)
    for e, r in (res or {}).items():
        if not r["covers"].get("hub.end"):
            c.covers_missing.append(e + ":hub.end")
        for v in r["violations"] or []:
            if v["kind"] == "assert" and (v["id"].startswith("C02.") or v["id"].startswith("C09.")):
                c.handle("hub", e, v, replay=(e == "H_C02_Ski"))
            elif v["kind"] == "panic":
                c.handle("hub", e, v, replay=False)
    return c.finish()
