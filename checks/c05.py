"""C05 (reduced scope): the mechanisms behind 'mutually paired peers converge to one connection'."""
import lib
import c02

G = "github.com/gorilla/websocket"
C05_CUTS = dict(c02.C02_CUTS)
C05_CUTS["(*%s.Conn).ReadMessage" % G] = "call:" + lib.MOD + "/hub.vWsRead"
C05_CUTS["(*%s.Conn).SetWriteDeadline" % G] = "noop"
C05_CUTS[G + ".FormatCloseMessage"] = "havoc"


def run(tier):
    c = lib.Check("C05", tier)
    c.assumptions = [
        "REDUCED SCOPE: convergence 'within bounded time after the last disturbance' over real TLS sockets, mDNS and wall-clock back-off is a liveness claim about two processes and is NOT decided; decided are the three mechanisms the property rests on",
        "tie-break: SKIs are arbitrary distinct non-empty lower-case hex strings of bounded length (byte vectors, Go string comparison exact); four situations (each of the two simultaneous connections arriving second on each of the two hubs)",
        "back-off: counter arbitrary in its invariant range, rand.Intn(n) returns any value in [0,n) and panics for n <= 0",
        "progress (one hub step from an arbitrary state): an mDNS report listing a trusted, unconnected SKI with no attempt running leads to a dial; the reported end of the registered connection of a trusted SKI leads to a re-announcement and a look at the known entries",
        "atomicity: the real ServeHTTP and connectFoundService run as two goroutines for the same peer under the delay-bounded scheduler, TLS/websocket calls cut (as in C02), no timer elapses; the peer stays silent",
    ]
    d = 3 if tier == "thorough" else 2
    c.bounds = {"ski_len_max": 6, "delay_bound_atomicity": d}
    res, meta = lib.run_engine("hub", ["H_C05_TieBreak", "H_C05_Backoff"], sched="manual", cuts=C05_CUTS, solver="z3-new", maxstr=6, loop=80,
                               extra=["-bvstr"], timeout_ms=60000)
    c.add_run("tiebreak-backoff", res, meta)
    res2, meta2 = lib.run_engine("hub", ["H_C05_Atomicity"], sched="explore", preempt=d, cuts=C05_CUTS, solver="z3-new", maxstr=40, loop=80,
                                 extra=["-bvstr"], paths=3000000)
    c.add_run("check-then-register", res2, meta2)
    # progress mechanisms in the hub step (shared harness with C10): report => dial, lost trusted connection => re-announce
    import hubstep
    hubstep.run_hub(c, ["H_Hub_Step"], ("C05.",))
    for rs in (res, res2):
        for e, r in (rs or {}).items():
            if not r["covers"].get("hub.end"):
                c.covers_missing.append(e + ":hub.end")
            for v in r["violations"] or []:
                if v["kind"] in ("assert", "panic", "deadlock") and (v["kind"] != "assert" or v["id"].startswith("C05.")):
                    c.handle("hub", e, v, replay=False)
    return c.finish()
