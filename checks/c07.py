"""C07: EEBUS-JSON transform is a lossless round trip in the SHIP-mandated shape."""
import lib


def run(tier):
    c = lib.Check("C07", tier, level="model_checking")
    n = 8 if tier == "thorough" else 5
    c.assumptions = [
        "BV-STR: strings are byte vectors of bounded capacity with symbolic length (QF_BV); bytes.ReplaceAll / bytes.Trim are exact scan encodings of Go's non-overlapping left-to-right semantics for the constant patterns used",
        "REFERENCE: wire text W(d) and compact text C(d) are defined by the reference shape functions in harness/ship/c07.go (object -> array of single-member objects at every level, outer brackets of the top level elided); the reference is validated against the real JsonIntoEEBUSJson by concrete execution on the skeleton family (auxiliary, labelled `into-native`)",
        "the symbolic leaf is an escape-free JSON string body (bytes 0x20..0xff without quote and backslash) or an unsigned decimal literal; one symbolic leaf per query, the rest of the document fixed (8 skeletons: value, member name, nested object, array element, array of objects, number, several members, nested arrays)",
        "the JSON -> EEBUS direction (encoding/json + ordered map, reflection) is not encodable: it is compared with the reference concretely only",
    ]
    c.bounds = {"symbolic_leaf_len_max": n, "skeletons": 8, "document_nodes_max": 6, "loop_unwind": 64}
    solver = "z3-new"
    res, meta = lib.run_engine("ship", ["H_C07_Fixed", "H_C07_Shrink", "H_C07_Hole"], sched="seq", solver=solver, maxstr=n, workers=8,
                               timeout_ms=600000, loop=64, extra=["-bvstr"])
    c.add_run("from-direction", res, meta)
    cuts = {lib.MOD + "/ship.JsonIntoEEBUSJson": "call:" + lib.MOD + "/ship.vInto"}
    res2, meta2 = lib.run_engine("ship", ["H_C07_Envelope"], sched="seq", solver="z3", maxstr=8, workers=1, timeout_ms=120000, loop=64,
                                 cuts=cuts, extra=["-bvstr"])
    c.add_run("envelope", res2, meta2)
    for rs in (res, res2):
        for e, r in (rs or {}).items():
            if not r["covers"].get("c07.end"):
                c.covers_missing.append(e + ":c07.end")
            for v in r["violations"] or []:
                if v["kind"] == "assert" and v["id"].startswith("C07."):
                    c.handle("ship", e, v)
    if tier == "thorough" and res:
        # second solver on the identical encoding
        res3, meta3 = lib.run_engine("ship", ["H_C07_Hole"], sched="seq", solver="z3", maxstr=min(n, 6), workers=8, timeout_ms=600000,
                                     loop=64, extra=["-bvstr"])
        c.add_run("from-direction-second-solver", res3, meta3)
    # auxiliary: concrete validation of the reference against the real JsonIntoEEBUSJson
    spec = lib.write_replay("C07", "ship", "H_C07_IntoNative", {"kind": "assert", "id": "C07.into-shape", "pos": "native"},
                            {"draws": []}, {"any": ["VERIF-ASSERT-FAILED", "VERIF-PANIC"]})
    bad, out = lib.run_replay(spec)
    c.extra["into_native"] = {"ran": True, "reference_matches_real_code": not bad, "output_tail": out[-600:]}
    c.replays_run += 1
    if bad:
        c.violations.append({"key": ("assert", "C07.into-shape", "JsonIntoEEBUSJson"), "replay": spec,
                             "violation": {"id": "C07.into-shape", "msg": "real JsonIntoEEBUSJson / envelope differs from the reference shape on a concrete document"},
                             "replay_output_tail": out[-1500:]})
    elif "VERIF-RETURNED" not in out:
        c.inconclusive.append("into-native did not run: " + out[-300:])
    return c.finish()
