// Package smt keeps one persistent solver process (z3 -in or cvc5 --incremental)
// and talks SMT-LIB2 text to it.
package smt

import (
	"bufio"
	"fmt"
	"io"
	"os"
	"os/exec"
	"strings"
	"syscall"
	"time"
)

type Result int

const (
	Unsat Result = iota
	Sat
	Unknown
)

func (r Result) String() string {
	switch r {
	case Unsat:
		return "unsat"
	case Sat:
		return "sat"
	}
	return "unknown"
}

type Stats struct {
	Sat, Unsat, Unknown int
	Errors              int
	Time                time.Duration
}

type Solver struct {
	Name    string
	cmd     *exec.Cmd
	in      io.WriteCloser
	out     *bufio.Reader
	Stats   Stats
	Log     io.Writer // optional transcript
	depth   int
	Timeout int // ms per query
	kind    string
	lastErr string
}

// New starts a solver. kind: "z3", "z3-new", "cvc5".
func New(kind string, timeoutMs int) (*Solver, error) {
	var cmd *exec.Cmd
	switch kind {
	case "z3":
		cmd = exec.Command("/usr/bin/z3", "-in", fmt.Sprintf("-t:%d", timeoutMs))
	case "z3-new":
		cmd = exec.Command("z3-new", "-in", fmt.Sprintf("-t:%d", timeoutMs))
	case "cvc5":
		cmd = exec.Command("/usr/bin/cvc5", "--incremental", "--strings-exp", "--produce-models",
			fmt.Sprintf("--tlimit-per=%d", timeoutMs), "--lang=smt2")
	default:
		return nil, fmt.Errorf("unknown solver %q", kind)
	}
	// the solver must not outlive the engine (an engine that is killed would leave busy solver processes behind)
	cmd.SysProcAttr = &syscall.SysProcAttr{Pdeathsig: syscall.SIGKILL}
	in, err := cmd.StdinPipe()
	if err != nil {
		return nil, err
	}
	outp, err := cmd.StdoutPipe()
	if err != nil {
		return nil, err
	}
	cmd.Stderr = os.Stderr
	if err := cmd.Start(); err != nil {
		return nil, err
	}
	s := &Solver{Name: kind, kind: kind, cmd: cmd, in: in, out: bufio.NewReaderSize(outp, 1<<20), Timeout: timeoutMs}
	if kind == "cvc5" {
		s.send("(set-logic ALL)")
	} else {
		s.send("(set-option :produce-models true)")
	}
	return s, nil
}

func (s *Solver) send(line string) {
	if s.Log != nil {
		fmt.Fprintln(s.Log, line)
	}
	io.WriteString(s.in, line)
	io.WriteString(s.in, "\n")
}

// Cmd sends a command that produces no output on success.
func (s *Solver) Cmd(line string) { s.send(line) }

func (s *Solver) Push() { s.send("(push 1)"); s.depth++ }
func (s *Solver) Pop()  { s.send("(pop 1)"); s.depth-- }
func (s *Solver) Depth() int {
	return s.depth
}

// PopTo pops frames until depth d.
func (s *Solver) PopTo(d int) {
	for s.depth > d {
		s.Pop()
	}
}

func (s *Solver) Assert(t string) { s.send("(assert " + t + ")") }

// readLine reads one output line, skipping (and counting) error lines.
func (s *Solver) readAnswer() (string, bool) {
	sawErr := false
	for {
		line, err := s.out.ReadString('\n')
		if err != nil {
			s.lastErr = "solver died: " + err.Error()
			return "", true
		}
		line = strings.TrimSpace(line)
		if line == "" {
			continue
		}
		if strings.HasPrefix(line, "(error") {
			sawErr = true
			s.lastErr = line
			s.Stats.Errors++
			// multi-line errors: read until balanced
			for strings.Count(line, "(") > strings.Count(line, ")") {
				more, err := s.out.ReadString('\n')
				if err != nil {
					break
				}
				line += more
			}
			continue
		}
		return line, sawErr
	}
}

// Check runs check-sat. Any "(error" seen since the last check makes it Unknown.
func (s *Solver) Check() Result {
	t0 := time.Now()
	s.send("(check-sat)")
	ans, sawErr := s.readAnswer()
	s.Stats.Time += time.Since(t0)
	r := Unknown
	switch ans {
	case "sat":
		r = Sat
	case "unsat":
		r = Unsat
	}
	if sawErr {
		r = Unknown
	}
	switch r {
	case Sat:
		s.Stats.Sat++
	case Unsat:
		s.Stats.Unsat++
	default:
		s.Stats.Unknown++
	}
	return r
}

func (s *Solver) LastError() string { return s.lastErr }

// CheckAssuming: push, assert, check, pop.
func (s *Solver) CheckWith(t string) Result {
	s.Push()
	s.Assert(t)
	r := s.Check()
	s.Pop()
	return r
}

// GetValues returns the model values (as SMT text) of the given terms; call after Sat.
func (s *Solver) GetValues(terms []string) map[string]string {
	res := map[string]string{}
	for _, t := range terms {
		s.send("(get-value (" + t + "))")
		txt := s.readSexp()
		// txt looks like ((t v))
		txt = strings.TrimSpace(txt)
		if strings.HasPrefix(txt, "(error") {
			continue
		}
		inner := strings.TrimSuffix(strings.TrimPrefix(txt, "(("), "))")
		// strip the echoed term
		if strings.HasPrefix(inner, t) {
			res[t] = strings.TrimSpace(inner[len(t):])
		} else {
			// z3 may normalise the printing of the term; split at the top-level boundary
			res[t] = splitSecond(inner)
		}
	}
	return res
}

func splitSecond(inner string) string {
	depth := 0
	inStr := false
	for i := 0; i < len(inner); i++ {
		c := inner[i]
		if inStr {
			if c == '"' {
				inStr = false
			}
			continue
		}
		switch c {
		case '"':
			inStr = true
		case '(':
			depth++
		case ')':
			depth--
		case ' ':
			if depth == 0 {
				return strings.TrimSpace(inner[i+1:])
			}
		}
	}
	return inner
}

// readSexp reads a balanced s-expression (possibly spanning lines).
func (s *Solver) readSexp() string {
	var sb strings.Builder
	depth := 0
	started := false
	inStr := false
	for {
		line, err := s.out.ReadString('\n')
		if err != nil {
			return sb.String()
		}
		for i := 0; i < len(line); i++ {
			c := line[i]
			if inStr {
				if c == '"' {
					inStr = false
				}
				continue
			}
			switch c {
			case '"':
				inStr = true
			case '(':
				depth++
				started = true
			case ')':
				depth--
			}
		}
		sb.WriteString(line)
		if started && depth <= 0 {
			return sb.String()
		}
		if !started && strings.TrimSpace(line) != "" {
			return sb.String()
		}
	}
}

func (s *Solver) Reset() {
	s.send("(reset)")
	s.depth = 0
	if s.kind == "cvc5" {
		s.send("(set-logic ALL)")
	} else {
		s.send("(set-option :produce-models true)")
	}
}

func (s *Solver) Close() {
	s.send("(exit)")
	s.in.Close()
	done := make(chan struct{})
	go func() { s.cmd.Wait(); close(done) }()
	select {
	case <-done:
	case <-time.After(2 * time.Second):
		s.cmd.Process.Kill()
	}
}
