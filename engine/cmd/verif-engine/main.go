// verif-engine: symbolic executor for go/ssa with SMT back-end.
//
// usage: verif-engine -repo /repo -harness /verif/harness -pkg ship -entry H_Name [options]
package main

import (
	"crypto/sha256"
	"encoding/json"
	"flag"
	"fmt"
	"os"
	"path/filepath"
	"sort"
	"strconv"
	"strings"
	"time"

	"golang.org/x/tools/go/packages"
	"golang.org/x/tools/go/ssa"
	"golang.org/x/tools/go/ssa/ssautil"

	"verif/engine/smt"
	"verif/engine/symex"
)

const modPath = "github.com/enbility/ship-go"

type multi []string

func (m *multi) String() string     { return strings.Join(*m, ",") }
func (m *multi) Set(s string) error { *m = append(*m, s); return nil }

func main() {
	repo := flag.String("repo", "/repo", "repository root")
	hdir := flag.String("harness", "/verif/harness", "harness root")
	pkg := flag.String("pkg", "ship", "package (dir under repo) holding the entry")
	var entries multi
	flag.Var(&entries, "entry", "entry function (repeatable)")
	sched := flag.String("sched", "seq", "seq|manual|explore")
	preempt := flag.Int("preempt", 2, "preemption bound (explore)")
	maxDepth := flag.Int("depth", 40, "call depth bound")
	maxLoop := flag.Int("loop", 8, "loop bound")
	maxPaths := flag.Int("paths", 200000, "path budget")
	maxSteps := flag.Int("steps", 200000, "instruction budget per path")
	solverName := flag.String("solver", "z3", "z3|z3-new|cvc5")
	timeout := flag.Int("timeout", 10000, "solver timeout per query (ms)")
	out := flag.String("out", "", "result JSON file")
	verbose := flag.Bool("v", false, "verbose")
	var cuts multi
	flag.Var(&cuts, "cut", "name=kind (kind: havoc|uf|noop)")
	strBytes := flag.Bool("strbytes", false, "constrain fresh strings to bytes")
	maxStr := flag.Int("maxstr", 0, "max length of fresh strings (0 = unbounded)")
	var params multi
	flag.Var(&params, "param", "name=int harness parameter (zzvrt.Param)")
	bvstr := flag.Bool("bvstr", false, "strings as bounded byte vectors of capacity -maxstr (QF_BV)")
	smtlog := flag.String("smtlog", "", "write solver transcript to file")
	deadline := flag.Int("deadline", 0, "wall-clock budget in seconds (0 = none)")
	workers := flag.Int("workers", 12, "parallel workers (one solver process each)")
	listOnly := flag.Bool("list", false, "list harness entries of the package and exit")
	flag.Parse()

	t0 := time.Now()
	prog, pkgs, files, err := load(*repo, *hdir)
	if err != nil {
		fmt.Fprintln(os.Stderr, "load error:", err)
		os.Exit(2)
	}
	loadS := time.Since(t0).Seconds()

	var target *ssa.Package
	for _, p := range pkgs {
		if p != nil && p.Pkg.Path() == modPath+"/"+*pkg {
			target = p
		}
	}
	if target == nil {
		fmt.Fprintln(os.Stderr, "package not found:", *pkg)
		os.Exit(2)
	}
	if *listOnly {
		var names []string
		for n, m := range target.Members {
			if _, ok := m.(*ssa.Function); ok && strings.HasPrefix(n, "H_") {
				names = append(names, n)
			}
		}
		sort.Strings(names)
		for _, n := range names {
			fmt.Println(n)
		}
		return
	}

	cutMap := map[string]string{}
	for _, c := range cuts {
		kv := strings.SplitN(c, "=", 2)
		if len(kv) == 2 {
			cutMap[kv[0]] = kv[1]
		}
	}

	// a cut naming a module function that no longer exists must not silently disappear
	known := map[string]bool{}
	for fn := range ssautil.AllFunctions(prog) {
		if fn != nil {
			known[fn.String()] = true
			if o := fn.Origin(); o != nil {
				known[o.String()] = true
			}
		}
	}
	for name, kind := range cutMap {
		if strings.Contains(name, modPath) && !known[name] {
			fmt.Fprintf(os.Stderr, "cut target %s does not exist in the current tree (renamed?): the harness has to be adapted\n", name)
			os.Exit(2)
		}
		if strings.HasPrefix(kind, "call:") && !known[kind[5:]] {
			fmt.Fprintf(os.Stderr, "cut replacement %s does not exist\n", kind[5:])
			os.Exit(2)
		}
	}

	results := map[string]*symex.Result{}
	for _, en := range entries {
		fn := target.Func(en)
		if fn == nil {
			fmt.Fprintln(os.Stderr, "entry not found:", en)
			os.Exit(2)
		}
		cfg := symex.Config{MaxDepth: *maxDepth, MaxLoop: *maxLoop, MaxPaths: *maxPaths, MaxSteps: *maxSteps,
			Sched: *sched, Preempt: *preempt, Cuts: cutMap, ModulePath: modPath, Verbose: *verbose,
			StrBytes: *strBytes, MaxStrLen: *maxStr, BVStr: *bvstr, Params: map[string]int{}}
		for _, p := range params {
			kv := strings.SplitN(p, "=", 2)
			if len(kv) == 2 {
				n, _ := strconv.Atoi(kv[1])
				cfg.Params[kv[0]] = n
			}
		}
		symex.BVStrMode = *bvstr
		if *deadline > 0 {
			cfg.Deadline = time.Now().Add(time.Duration(*deadline) * time.Second)
		}
		var inits []*ssa.Function
		if init := target.Func("init"); init != nil {
			inits = append(inits, init)
		}
		var logf *os.File
		if *smtlog != "" {
			logf, _ = os.Create(*smtlog)
		}
		mk := func() (*smt.Solver, error) {
			s, err := smt.New(*solverName, *timeout)
			if err == nil && logf != nil && *workers == 1 {
				s.Log = logf
			}
			return s, err
		}
		res, err := symex.ExploreParallel(prog, cfg, mk, fn, inits, *workers)
		if err != nil {
			fmt.Fprintln(os.Stderr, "explore:", err)
			os.Exit(2)
		}
		results[en] = res
	}

	type outT struct {
		Results map[string]*symex.Result `json:"results"`
		LoadS   float64                  `json:"load_s"`
		Sources map[string]string        `json:"source_sha256"`
		Solver  string                   `json:"solver"`
	}
	o := outT{Results: results, LoadS: loadS, Sources: map[string]string{}, Solver: *solverName}
	for _, r := range results {
		for f := range r.Files {
			if _, ok := o.Sources[f]; ok {
				continue
			}
			if b, ok := files[f]; ok {
				o.Sources[f] = fmt.Sprintf("%x", sha256.Sum256(b))
			} else if b, err := os.ReadFile(f); err == nil {
				o.Sources[f] = fmt.Sprintf("%x", sha256.Sum256(b))
			}
		}
	}
	b, _ := json.MarshalIndent(o, "", " ")
	if *out != "" {
		os.WriteFile(*out, b, 0644)
	} else {
		os.Stdout.Write(b)
		fmt.Println()
	}
}

// load builds SSA for the module packages of the repo with the harness overlay.
func load(repo, hdir string) (*ssa.Program, []*ssa.Package, map[string][]byte, error) {
	overlay := map[string][]byte{}
	// harness/<pkg>/*.go -> /repo/<pkg>/zz_verif_<name>.go ; harness/zzvrt -> /repo/zzvrt
	ents, err := os.ReadDir(hdir)
	if err != nil {
		return nil, nil, nil, err
	}
	for _, d := range ents {
		if !d.IsDir() {
			continue
		}
		files, _ := filepath.Glob(filepath.Join(hdir, d.Name(), "*.go"))
		for _, f := range files {
			if strings.HasSuffix(f, "_test.go") {
				continue
			}
			b, err := os.ReadFile(f)
			if err != nil {
				return nil, nil, nil, err
			}
			var dst string
			if d.Name() == "zzvrt" {
				dst = filepath.Join(repo, "zzvrt", filepath.Base(f))
			} else {
				dst = filepath.Join(repo, d.Name(), "zz_verif_"+filepath.Base(f))
			}
			overlay[dst] = b
		}
	}
	cfg := &packages.Config{
		Mode: packages.NeedName | packages.NeedFiles | packages.NeedCompiledGoFiles | packages.NeedImports |
			packages.NeedDeps | packages.NeedTypes | packages.NeedSyntax | packages.NeedTypesInfo | packages.NeedTypesSizes | packages.NeedModule,
		Dir:        repo,
		Overlay:    overlay,
		BuildFlags: []string{"-tags=verif"},
		Env:        append(os.Environ(), "GOFLAGS=-mod=mod", "GOPROXY=off", "GOSUMDB=off", "GOTOOLCHAIN=local"),
	}
	pats := []string{"./ship", "./hub", "./ws", "./mdns", "./cert", "./api", "./util", "./model", "./logging", "./zzvrt"}
	initial, err := packages.Load(cfg, pats...)
	if err != nil {
		return nil, nil, nil, err
	}
	nerr := 0
	for _, p := range initial {
		for _, e := range p.Errors {
			fmt.Fprintln(os.Stderr, "pkg error:", e)
			nerr++
		}
	}
	if nerr > 0 {
		return nil, nil, nil, fmt.Errorf("%d package errors", nerr)
	}
	prog, pkgs := ssautil.AllPackages(initial, ssa.InstantiateGenerics)
	for _, p := range prog.AllPackages() {
		if strings.HasPrefix(p.Pkg.Path(), modPath) {
			p.Build()
		}
	}
	return prog, pkgs, overlay, nil
}
