package symex

import (
	"fmt"
	"go/token"
	"go/types"
	"reflect"
	"strings"
	"unicode/utf8"

	"golang.org/x/tools/go/ssa"
)

// fresh builds an unconstrained symbolic value of type t.
func (st *State) fresh(t types.Type, name string, depth int) Val {
	switch u := t.Underlying().(type) {
	case *types.Basic:
		switch {
		case u.Info()&types.IsBoolean != 0:
			return st.freshVar(name, SBool)
		case u.Info()&types.IsString != 0:
			return st.freshVar(name, SStr)
		case u.Info()&types.IsInteger != 0:
			w, _ := bvWidth(u)
			return st.freshVar(name, SBV(w))
		case u.Info()&types.IsFloat != 0:
			return FloatVal{0}
		}
	case *types.Pointer:
		if depth > 3 {
			return PtrVal{IsNil: True, T: t}
		}
		isNil := st.freshVar(name+".isnil", SBool)
		l := st.newLoc(u.Elem(), name)
		st.store(l, st.fresh(u.Elem(), name+".p", depth+1))
		return PtrVal{L: l, IsNil: isNil, T: t}
	case *types.Struct:
		sv := StructVal{T: t, Fields: make([]Val, u.NumFields())}
		for i := 0; i < u.NumFields(); i++ {
			sv.Fields[i] = st.fresh(u.Field(i).Type(), name+"."+u.Field(i).Name(), depth+1)
		}
		return sv
	case *types.Slice:
		if isRawMessage(t) {
			// json.RawMessage: a real (mutable) byte slice, so that the decoder's reuse of the backing array
			// (RawMessage.UnmarshalJSON appends to m[:0]) and the aliasing it causes are visible
			const rawCap = 3
			arr := st.newLoc(types.NewArray(u.Elem(), rawCap), name)
			for i := 0; i < rawCap; i++ {
				st.store(arr.Elems[i], st.freshVar(fmt.Sprintf("%s.b%d", name, i), SBV(8)))
			}
			ln := st.freshVar(name+".len", SBV(64))
			isNil := st.freshVar(name+".isnil", SBool)
			st.assume(And(Cmp(">=", ln, BV(64, 0), true), Cmp("<=", ln, BV(64, rawCap), true)))
			st.assume(Implies(isNil, Eq(ln, BV(64, 0))))
			st.assume(Implies(Not(isNil), Cmp(">=", ln, BV(64, 1), true)))
			return SliceVal{Arr: arr, Len: ln, Cap: rawCap, IsNil: isNil, ElemT: u.Elem()}
		}
		if isByteSlice(t) {
			return BytesVal{S: st.freshVar(name, SStr), IsNil: st.freshVar(name+".isnil", SBool)}
		}
		max := st.freshSliceMax()
		arr := st.newLoc(types.NewArray(u.Elem(), int64(max)), name)
		for i := 0; i < max; i++ {
			st.store(arr.Elems[i], st.fresh(u.Elem(), fmt.Sprintf("%s.%d", name, i), depth+1))
		}
		ln := st.freshVar(name+".len", SBV(64))
		isNil := st.freshVar(name+".isnil", SBool)
		st.assume(And(Cmp(">=", ln, BV(64, 0), true), Cmp("<=", ln, BV(64, uint64(max)), true)))
		st.assume(Implies(isNil, Eq(ln, BV(64, 0))))
		return SliceVal{Arr: arr, Len: ln, Cap: max, IsNil: isNil, ElemT: u.Elem()}
	case *types.Array:
		av := ArrayVal{T: t, Elems: make([]Val, int(u.Len()))}
		for i := range av.Elems {
			av.Elems[i] = st.fresh(u.Elem(), fmt.Sprintf("%s.%d", name, i), depth+1)
		}
		return av
	case *types.Interface:
		if isErrorType(t) {
			if st.branch(st.freshVar(name+".iserr", SBool)) {
				return st.newErr(st.freshVar(name+".msg", SStr))
			}
			return IfaceVal{}
		}
		return IfaceVal{}
	case *types.Map:
		return MapVal{}
	}
	st.idCounter++
	return OpaqueVal{T: t, ID: st.idCounter, Name: name}
}

func (st *State) freshSliceMax() int { return 2 }

func isRawMessage(t types.Type) bool {
	n, ok := t.(*types.Named)
	return ok && n.Obj().Name() == "RawMessage" && n.Obj().Pkg() != nil && n.Obj().Pkg().Path() == "encoding/json"
}

// storeDecoded stores a decoded value, modelling encoding/json's reuse of an existing RawMessage backing array:
// the new bytes are written into the old array (when they fit), so every alias of the old slice changes.
func (st *State) storeDecoded(l *Loc, v Val) {
	switch l.T.Underlying().(type) {
	case *types.Struct:
		sv := v.(StructVal)
		for i, e := range l.Elems {
			st.storeDecoded(e, sv.Fields[i])
		}
		return
	}
	if isRawMessage(l.T) {
		if old, ok := l.V.(SliceVal); ok && old.Arr != nil {
			if nv, ok := v.(SliceVal); ok && nv.Arr != nil {
				n := old.Cap
				if nv.Cap < n {
					n = nv.Cap
				}
				for i := 0; i < n; i++ {
					st.store(old.Arr.Elems[old.Off+i], st.load(nv.Arr.Elems[nv.Off+i]))
				}
				st.assume(Cmp("<=", nv.Len, BV(64, uint64(n)), true)) // it fits: the array is reused
				l.V = SliceVal{Arr: old.Arr, Off: old.Off, Len: nv.Len, Cap: old.Cap, IsNil: nv.IsNil, ElemT: old.ElemT}
				return
			}
		}
	}
	st.store(l, v)
}

func isErrorType(t types.Type) bool {
	return types.Identical(t, types.Universe.Lookup("error").Type())
}

func (st *State) newErr(msg *Term) IfaceVal {
	st.idCounter++
	return IfaceVal{Dyn: st.eng.errType, V: BuiltinErr{Msg: msg, ID: st.idCounter}}
}

// provOf: provenance (what struct a text was marshalled from) of a byte string / string value.
func (st *State) provOf(v Val) []Prov {
	switch x := v.(type) {
	case BytesVal:
		if len(x.Prov) > 0 {
			return x.Prov
		}
		return st.provOfTerm(x.S)
	case *Term:
		return st.provOfTerm(x)
	}
	return nil
}

func (st *State) provOfTerm(t *Term) []Prov {
	if t == nil {
		return nil
	}
	if p, ok := st.prov[t.S]; ok {
		return p
	}
	if t.Tail != nil {
		return st.provOfTerm(t.Tail)
	}
	return nil
}

func (st *State) setProv(v Val, p []Prov) {
	if len(p) == 0 {
		return
	}
	switch x := v.(type) {
	case BytesVal:
		st.prov[x.S.S] = p
	case *Term:
		st.prov[x.S] = p
	case TupleVal:
		for _, e := range x {
			st.setProv(e, p)
		}
	}
}

func (st *State) assumeMinLen(v Val, n int) {
	switch x := v.(type) {
	case BytesVal:
		st.assume(Cmp(">=", StrLen(x.S), BV(64, uint64(n)), true))
	case *Term:
		if x.Sort.K == KStr {
			st.assume(Cmp(">=", StrLen(x), BV(64, uint64(n)), true))
		}
	case TupleVal:
		for _, e := range x {
			st.assumeMinLen(e, n)
		}
	}
}

func jsonTopKeys(t types.Type) []string {
	var out []string
	if t == nil {
		return out
	}
	if p, ok := t.Underlying().(*types.Pointer); ok {
		t = p.Elem()
	}
	stt, ok := t.Underlying().(*types.Struct)
	if !ok {
		return out
	}
	for i := 0; i < stt.NumFields(); i++ {
		name := stt.Field(i).Name()
		if tag := reflect.StructTag(stt.Tag(i)).Get("json"); tag != "" && tag != "-" {
			if n := strings.Split(tag, ",")[0]; n != "" {
				name = n
			}
		}
		out = append(out, name)
	}
	return out
}

func (st *State) strArg(v Val) *Term {
	switch x := v.(type) {
	case *Term:
		return x
	case BytesVal:
		return x.S
	case SliceVal:
		return st.bytesToStr(x)
	}
	st.fail("engine-error", fmt.Sprintf("strArg %T", v))
	return nil
}

func asBytes(s *Term) BytesVal { return BytesVal{S: s, IsNil: False} }

func (st *State) lockLoc(v Val) *Loc {
	p := v.(PtrVal)
	if p.L == nil {
		st.fail("panic", "nil mutex")
	}
	if p.L.Mu == nil {
		p.L.Mu = &MutexState{}
	}
	return p.L
}

type blockedT struct{}

var blockedRet = blockedT{}

// callExtern handles engine intrinsics, summaries and unknown externals.
// Returns (result, blocked).
func (st *State) callExtern(g *G, fr *Frame, name string, fn *ssa.Function, args []Val, sig *types.Signature, res *ssa.Call) (Val, bool) {
	e := st.eng
	pos := instrPos2(res, fr)
	if kind, ok := e.Cfg.Cuts[name]; ok {
		e.stubs["cut:"+name] = true
		return st.cutCall(kind, name, args, sig), false
	}
	if strings.HasSuffix(name, ".init") {
		return nil, false
	}
	if i := strings.Index(name, "/zzvrt."); i >= 0 {
		return st.intrinsic(g, fr, name[i+7:], fn, args, sig, res)
	}
	switch name {
	// ---- sync ----
	case "(*sync.Mutex).Lock", "(*sync.RWMutex).Lock":
		l := st.lockLoc(args[0])
		if l.Mu.Locked || l.Mu.Readers > 0 {
			if l.Mu.Locked && l.Mu.Owner == g.ID {
				st.recordViolation("deadlock", "self-deadlock", "re-lock of a mutex already held by this goroutine: "+l.Name, pos, false)
				st.fail("deadlock", "self deadlock on "+l.Name)
			}
			return nil, !st.block(g, &waitInfo{kind: "lock", loc: l, instr: curInstr(fr)})
		}
		l.Mu.Locked = true
		l.Mu.Owner = g.ID
		g.Held = append(g.Held, l)
		return nil, false
	case "(*sync.Mutex).Unlock", "(*sync.RWMutex).Unlock":
		l := st.lockLoc(args[0])
		if !l.Mu.Locked {
			st.check(False, "panic", "unlock-unlocked", "sync: unlock of unlocked mutex "+l.Name, pos)
		}
		l.Mu.Locked = false
		st.dropHeld(l)
		return nil, false
	case "(*sync.Mutex).TryLock":
		l := st.lockLoc(args[0])
		if l.Mu.Locked {
			return False, false
		}
		l.Mu.Locked = true
		l.Mu.Owner = g.ID
		g.Held = append(g.Held, l)
		return True, false
	case "(*sync.RWMutex).RLock":
		l := st.lockLoc(args[0])
		if l.Mu.Locked {
			if l.Mu.Owner == g.ID {
				st.recordViolation("deadlock", "self-deadlock", "RLock while holding the write lock: "+l.Name, pos, false)
				st.fail("deadlock", "self deadlock on "+l.Name)
			}
			return nil, !st.block(g, &waitInfo{kind: "rlock", loc: l, instr: curInstr(fr)})
		}
		l.Mu.Readers++
		g.Held = append(g.Held, l)
		return nil, false
	case "(*sync.RWMutex).RUnlock":
		l := st.lockLoc(args[0])
		if l.Mu.Readers <= 0 {
			st.check(False, "panic", "unlock-unlocked", "sync: RUnlock of unlocked RWMutex", pos)
		}
		l.Mu.Readers--
		st.dropHeld(l)
		return nil, false
	case "(*sync.Once).Do":
		p := args[0].(PtrVal)
		l := p.L
		if l.Once == nil {
			l.Once = &OnceState{}
		}
		if l.Once.Done {
			return nil, false
		}
		if l.Once.Running {
			if l.Once.Owner == g.ID {
				st.recordViolation("deadlock", "once-reentry", "sync.Once.Do re-entered from inside its own function: "+l.Name, pos, false)
				st.fail("deadlock", "Once re-entry on "+l.Name)
			}
			return nil, !st.block(g, &waitInfo{kind: "once", loc: l, instr: curInstr(fr)})
		}
		l.Once.Running = true
		l.Once.Owner = g.ID
		cv := args[1].(ClosureVal)
		nf := st.newFrame(cv.Fn, nil, cv.Binds)
		nf.ResultTo = nil
		if res != nil {
			nf.ResultTo = res
		}
		nf.IsDefer = res == nil
		nf.OnReturn = func(Val) {
			l.Once.Running = false
			l.Once.Done = true
		}
		g.Stack = append(g.Stack, nf)
		return contCall{}, false

	// ---- time ----
	case "time.After":
		st.idCounter++
		c := &ChanObj{Cap: 1, ID: st.idCounter, Timer: true, TimerD: args[0].(*Term), Label: "time.After@" + e.pos(pos), ElemT: sig.Results().At(0).Type().Underlying().(*types.Chan).Elem()}
		if st.clock != nil {
			c.At = Arith("+", st.clock, args[0].(*Term), true)
		}
		return ChanVal{C: c}, false
	case "time.Now":
		return st.fresh(sig.Results().At(0).Type(), "now", 5), false
	case "(time.Duration).Milliseconds":
		return Arith("/", args[0].(*Term), BV(64, 1000000), true), false
	case "(time.Duration).Seconds":
		return FloatVal{0}, false
	case "(time.Duration).String":
		return st.freshVar("durstr", SStr), false
	case "(time.Time).Add":
		return args[0], false
	case "time.NewTicker":
		// ticker with a channel that never fires unless timers are on; modelled as *Ticker with C
		tt := sig.Results().At(0).Type().(*types.Pointer).Elem()
		l := st.newLoc(tt, "ticker")
		st.idCounter++
		c := &ChanObj{Cap: 1, ID: st.idCounter, Timer: true, Fired: true, Label: "ticker", ElemT: nil}
		// field C is the first field of time.Ticker
		l.Elems[0].V = ChanVal{C: c}
		return PtrVal{L: l, IsNil: False, T: sig.Results().At(0).Type()}, false
	case "(*time.Ticker).Stop":
		return nil, false

	// ---- errors / fmt ----
	case "errors.New":
		return st.newErr(args[0].(*Term)), false
	case "fmt.Errorf":
		return st.newErr(st.freshVar("errorf", SStr)), false
	case "errors.Is":
		a, b := args[0].(IfaceVal), args[1].(IfaceVal)
		return st.eqVal(a, b), false
	case "fmt.Sprintf":
		return st.sprintf(args), false
	case "fmt.Sprint", "fmt.Sprintln":
		return st.freshVar("sprint", SStr), false

	// ---- strings / bytes ----
	case "strings.Contains", "bytes.Contains":
		h, n := st.strArg(args[0]), st.strArg(args[1])
		if pv := st.provOf(args[0]); len(pv) > 0 && n.Const {
			// WIRE-RT: the text is the library's own marshalling of a known struct
			for _, p := range pv {
				if p.Kind != "marshal" {
					continue
				}
				keys := jsonTopKeys(p.T)
				if strings.HasPrefix(n.Str, "\"") && strings.HasSuffix(n.Str, "\":{") {
					k := n.Str[1 : len(n.Str)-3]
					for _, kk := range keys {
						if kk == k {
							return True, false
						}
					}
					return False, false
				}
				if n.Str == "datagram" {
					return False, false // handshake structs carry no datagram member
				}
			}
		}
		r := StrContains(h, n)
		if !h.Const && n.Const {
			st.containsObs = append(st.containsObs, containsObs{Hay: h.S, Needle: n.Str, T: r})
		}
		return r, false
	case "strings.HasPrefix":
		return StrPrefixOf(st.strArg(args[1]), st.strArg(args[0])), false
	case "strings.HasSuffix":
		return StrSuffixOf(st.strArg(args[1]), st.strArg(args[0])), false
	case "strings.ReplaceAll":
		return st.replaceAll(args), false
	case "bytes.ReplaceAll":
		bv := asBytes(st.replaceAll(args))
		return bv, false
	case "strings.ToLower":
		return st.strMap("str.to_lower", args[0].(*Term), strings.ToLower), false
	case "strings.ToUpper":
		return st.strMap("str.to_upper", args[0].(*Term), strings.ToUpper), false
	case "strings.TrimPrefix":
		s, p := st.strArg(args[0]), st.strArg(args[1])
		has := StrPrefixOf(p, s)
		return Ite(has, StrSub(s, StrLen(p), StrLen(s)), s), false
	case "strings.TrimSuffix":
		s, p := st.strArg(args[0]), st.strArg(args[1])
		has := StrSuffixOf(p, s)
		return Ite(has, StrSub(s, BV(64, 0), Arith("-", StrLen(s), StrLen(p), true)), s), false
	case "bytes.Equal":
		return Eq(st.strArg(args[0]), st.strArg(args[1])), false
	case "bytes.Trim":
		return asBytes(st.trimCutset(st.strArg(args[0]), st.strArg(args[1]))), false
	case "strings.Split":
		return st.strSplit(st.strArg(args[0]), st.strArg(args[1])), false
	case "strconv.Itoa":
		t := args[0].(*Term)
		if t.Const {
			return Str(fmt.Sprint(signed(64, t.U))), false
		}
		return st.intToStr(t, true), false
	case "strconv.ParseUint":
		return st.parseUint(st.strArg(args[0]), args), false

	case "unicode/utf8.RuneStart":
		b := args[0].(*Term)
		return Not(bvEq(Arith("&", b, BV(8, 0xc0), false), BV(8, 0x80))), false
	case "unicode/utf8.DecodeLastRuneInString", "unicode/utf8.DecodeLastRune":
		// exact size, rune value abstract (fresh) unless ASCII; byte-vector strings only
		sv := st.strArg(args[0])
		if sv.Const {
			r, sz := utf8.DecodeLastRuneInString(sv.Str)
			return TupleVal{BV(32, uint64(uint32(r))), BV(64, uint64(sz))}, false
		}
		if sv.BS == nil {
			st.fail("unsupported", "DecodeLastRuneInString needs byte-vector strings")
		}
		n := StrLen(sv)
		at := func(k int) *Term { return StrByte(sv, Arith("-", n, BV(64, uint64(k)), true)) } // k-th byte from the end
		isStart := func(b *Term) *Term { return Not(bvEq(Arith("&", b, BV(8, 0xc0), false), BV(8, 0x80))) }
		ge := func(k int) *Term { return Cmp(">=", n, BV(64, uint64(k)), true) }
		last := at(1)
		lastASCII := Cmp("<", last, BV(8, 0x80), false)
		size := BV(64, 1)
		// candidates from the longest: the first RuneStart found scanning back from the second to last byte
		for k := 4; k >= 2; k-- {
			cond := ge(k)
			for j := 2; j < k; j++ {
				cond = And(cond, Not(isStart(at(j))))
			}
			cond = And(cond, isStart(at(k)))
			sub := StrSub(sv, Arith("-", n, BV(64, uint64(k)), true), n)
			valid := And(st.intrinsicValidUTF8(sub), Not(isStart(last)))
			// a valid string of k bytes whose only RuneStart byte is the first one is exactly one k-byte rune
			size = Ite(And(cond, valid), BV(64, uint64(k)), Ite(cond, BV(64, 1), size))
		}
		size = Ite(Or(lastASCII, bvEq(n, BV(64, 0))), Ite(bvEq(n, BV(64, 0)), BV(64, 0), BV(64, 1)), size)
		size = st.name(size, "dlr")
		r := st.freshVar("rune", SBV(32))
		return TupleVal{Ite(lastASCII, Resize(last, 32, false), r), size}, false
	case "unicode/utf8.ValidString":
		return st.intrinsicValidUTF8(st.strArg(args[0])), false
	case "strings.Count":
		sv, nd := st.strArg(args[0]), st.strArg(args[1])
		if sv.Const && nd.Const {
			return BV(64, uint64(strings.Count(sv.Str, nd.Str))), false
		}
		if nd.Const && len(nd.Str) == 1 && sv.BS != nil {
			n := BV(64, 0)
			for i, bt := range sv.BS.B {
				hit := And(Cmp("<", idx64(i), sv.BS.Len, false), bvEq(bt, BV(8, uint64(nd.Str[0]))))
				n = st.name(Ite(hit, Arith("+", n, BV(64, 1), false), n), "cnt")
			}
			return n, false
		}
		st.fail("unsupported", "strings.Count form")
		return nil, false
	case "strings.Index":
		sv, nd := st.strArg(args[0]), st.strArg(args[1])
		if sv.Const && nd.Const {
			return BV(64, uint64(int64(strings.Index(sv.Str, nd.Str)))), false
		}
		if nd.Const && len(nd.Str) == 1 && (sv.BS != nil) {
			i, found := bsIndexByte(sv.BS, nd.Str[0])
			return Ite(found, i, BV(64, ^uint64(0))), false
		}
		st.fail("unsupported", "strings.Index form")
		return nil, false
	case "strings.TrimSpace":
		sv := st.strArg(args[0])
		if sv.Const {
			return Str(strings.TrimSpace(sv.Str)), false
		}
		if sv.BS != nil {
			// exact for strings without bytes >= 0x80 next to the trimmed ends; Unicode spaces (U+0085, U+00A0, U+2000..) are
			// multi-byte and not treated as space here: inputs whose first or last byte is >= 0x80 are outside the encoding
			n := StrLen(sv)
			hi := func(b *Term) *Term { return Cmp(">=", b, BV(8, 0x80), false) }
			edge := And(Cmp(">", n, BV(64, 0), true), Or(hi(StrByte(sv, BV(64, 0))), hi(StrByte(sv, Arith("-", n, BV(64, 1), true)))))
			if st.branch(edge) {
				st.fail("unsupported", "strings.TrimSpace: non-ASCII byte at an end of the string (stated bound)")
			}
			return bsTerm(bsTrimSet(sv.BS, isASCIISpace)), false
		}
		st.fail("unsupported", "strings.TrimSpace needs byte-vector strings")
		return nil, false
	case "strings.Cut":
		// single-byte constant separator: split at the first occurrence
		sv, sep := st.strArg(args[0]), st.strArg(args[1])
		if sv.Const && sep.Const {
			a, b, f := strings.Cut(sv.Str, sep.Str)
			return TupleVal{Str(a), Str(b), Bool(f)}, false
		}
		if sep.Const && len(sep.Str) == 1 {
			if st.branch(StrContains(sv, sep)) {
				var i *Term
				if sv.BS != nil {
					i, _ = bsIndexByte(sv.BS, sep.Str[0])
				} else {
					i = fromInt(64, "(str.indexof "+sv.S+" "+sep.S+" 0)")
				}
				return TupleVal{StrSub(sv, BV(64, 0), i), StrSub(sv, Arith("+", i, BV(64, 1), true), StrLen(sv)), True}, false
			}
			return TupleVal{sv, Str(""), False}, false
		}
		st.fail("unsupported", "strings.Cut form")
		return nil, false
	case "strings.SplitN":
		// only n == 2 with a single-byte separator: split at the first occurrence
		n := args[2].(*Term)
		sv, sep := st.strArg(args[0]), st.strArg(args[1])
		if n.Const && n.U == 2 && sep.Const && len(sep.Str) == 1 {
			strT := types.Typ[types.String]
			if sv.Const {
				parts := strings.SplitN(sv.Str, sep.Str, 2)
				var vs []Val
				for _, p := range parts {
					vs = append(vs, Str(p))
				}
				return st.mkSlice(strT, vs, 0), false
			}
			if st.branch(StrContains(sv, sep)) {
				var i *Term
				if sv.BS != nil {
					i, _ = bsIndexByte(sv.BS, sep.Str[0])
				} else {
					i = fromInt(64, "(str.indexof "+sv.S+" "+sep.S+" 0)")
				}
				return st.mkSlice(strT, []Val{StrSub(sv, BV(64, 0), i), StrSub(sv, Arith("+", i, BV(64, 1), true), StrLen(sv))}, 0), false
			}
			return st.mkSlice(strT, []Val{sv}, 0), false
		}
		st.fail("unsupported", "strings.SplitN form")
		return nil, false

	// ---- json ----
	case "encoding/json.Unmarshal":
		return st.jsonUnmarshal(args), false
	case "encoding/json.Marshal":
		return st.jsonMarshal(args), false

	// ---- logging ----
	case e.Cfg.ModulePath + "/logging.Log":
		lt := sig.Results().At(0).Type()
		_ = lt
		pkg := fn.Pkg
		nl := pkg.Type("NoLogging")
		l := st.newLoc(nl.Type(), "nolog")
		return IfaceVal{Dyn: types.NewPointer(nl.Type()), V: PtrVal{L: l, IsNil: False, T: types.NewPointer(nl.Type())}}, false

	// ---- misc ----
	case "slices.SortFunc", "sort.Slice", "sort.SliceStable":
		// in-place reordering: every element is (potentially) written; the order itself is not modelled
		var sv Val = args[0]
		if iv, ok := sv.(IfaceVal); ok {
			sv = iv.V
		}
		if sl, ok := sv.(SliceVal); ok && sl.Arr != nil {
			n := int(st.concretize(sl.Len, 64))
			for i := 0; i < n; i++ {
				st.noteAccess(g, sl.Arr.Elems[sl.Off+i], true, curInstr(fr))
			}
		}
		st.eng.stubs[name+" (writes every element; order not modelled)"] = true
		return nil, false
	case "math/rand.Intn":
		n := args[0].(*Term)
		st.check(Cmp(">", n, BV(64, 0), true), "panic", "rand-intn-nonpositive", "invalid argument to Intn", pos)
		r := st.freshVar("rand", SBV(64))
		st.assume(And(Cmp(">=", r, BV(64, 0), true), Cmp("<", r, n, true)))
		st.draws = append(st.draws, Draw{Name: "rand.Intn", Kind: "int", Term: r.S})
		return r, false
	case "crypto/sha1.Sum":
		// uninterpreted: fresh 20-byte array per distinct argument term
		key := "sha1:" + st.strArg(args[0]).S
		if v, ok := st.ufCache[key]; ok {
			return v, false
		}
		v := st.fresh(sig.Results().At(0).Type(), "sha1", 0)
		st.ufCache[key] = v
		return v, false
	}
	// unknown external: havoc
	e.unmod[name] = true
	return st.havocResult(sig, name), false
}

func curInstr(fr *Frame) ssa.Instruction { return fr.Block.Instrs[fr.PC] }

func (st *State) dropHeld(l *Loc) {
	for _, o := range st.gs {
		for i := len(o.Held) - 1; i >= 0; i-- {
			if o.Held[i] == l {
				o.Held = append(o.Held[:i:i], o.Held[i+1:]...)
				return
			}
		}
	}
}

func (st *State) havocResult(sig *types.Signature, name string) Val {
	return st.havocResult2(sig, name, false)
}

func (st *State) havocResult2(sig *types.Signature, name string, noErr bool) Val {
	rs := sig.Results()
	base := name
	if i := strings.LastIndex(base, "."); i >= 0 {
		base = base[i+1:]
	}
	switch rs.Len() {
	case 0:
		return nil
	case 1:
		if noErr && isErrorType(rs.At(0).Type()) {
			return IfaceVal{}
		}
		return st.fresh(rs.At(0).Type(), "ext."+base, 0)
	}
	tv := make(TupleVal, rs.Len())
	for i := range tv {
		if noErr && isErrorType(rs.At(i).Type()) {
			tv[i] = IfaceVal{}
			continue
		}
		tv[i] = st.fresh(rs.At(i).Type(), fmt.Sprintf("ext.%s.%d", base, i), 0)
	}
	return tv
}

func (st *State) cutCall(kind, name string, args []Val, sig *types.Signature) Val {
	switch kind {
	case "havoc":
		return st.havocResult(sig, name)
	case "uf", "ufok", "ufshrink", "ufidem":
		// uninterpreted function of the (string-like) arguments ("ufok": error results are nil)
		key := name
		for _, a := range args {
			switch x := a.(type) {
			case *Term:
				key += "|" + x.S
			case BytesVal:
				key += "|" + x.S.S
			case SliceVal:
				if x.Arr != nil {
					key += fmt.Sprintf("|slice#%d+%d:%s", x.Arr.ID, x.Off, x.Len.S)
				} else {
					key += "|nilslice"
				}
			case PtrVal:
				if x.L != nil {
					key += fmt.Sprintf("|ptr#%d", x.L.ID)
				} else {
					key += "|nilptr"
				}
			default:
				key += fmt.Sprintf("|%T", a)
			}
		}
		if v, ok := st.ufCache[key]; ok {
			return v
		}
		if kind == "ufidem" && len(args) == 1 {
			// idempotent function: f(f(x)) = f(x)
			if t, ok := args[0].(*Term); ok {
				if _, isRes := st.ufCache["res:"+name+"|"+t.S]; isRes {
					return t
				}
			}
		}
		v := st.havocResult2(sig, name, kind == "ufok")
		// remember what each uninterpreted result was computed from (to find the frame a parse result belongs to)
		argText := ""
		for _, a := range args {
			switch x := a.(type) {
			case *Term:
				argText += " " + x.S
			case BytesVal:
				argText += " " + x.S.S
			}
		}
		switch x := v.(type) {
		case *Term:
			st.ufArg[x.S] = argText
		case BytesVal:
			st.ufArg[x.S.S] = argText
		case TupleVal:
			for _, e := range x {
				if t, ok := e.(*Term); ok {
					st.ufArg[t.S] = argText
				}
			}
		}
		if kind == "ufidem" {
			if t, ok := v.(*Term); ok {
				st.ufCache["res:"+name+"|"+t.S] = t
			}
		}
		if kind == "ufshrink" {
			// lemma (discharged separately for the real function): the result is never longer than the input
			if bv, ok := v.(BytesVal); ok && len(args) == 1 {
				if in, ok := args[0].(BytesVal); ok {
					st.assume(Cmp("<=", StrLen(bv.S), StrLen(in.S), true))
				}
			}
		}
		// carry provenance through (side table, survives string conversions)
		for _, a := range args {
			if pv := st.provOf(a); len(pv) > 0 {
				st.setProv(v, pv)
				// a marshalled library struct is a non-empty JSON object in either notation: at least 3 bytes
				st.assumeMinLen(v, 3)
			}
		}
		if bv, ok := v.(BytesVal); ok {
			for _, a := range args {
				if ab, ok := a.(BytesVal); ok {
					bv.Prov = append(bv.Prov, ab.Prov...)
				}
			}
			bv.IsNil = False
			v = bv
		}
		if tv, ok := v.(TupleVal); ok {
			// (string, error) results: keep provenance on nothing; error symbolic
			_ = tv
		}
		st.ufCache[key] = v
		return v
	case "noop":
		return st.zeroResult(sig)
	case "deepcopy":
		// util.DeepCopy(source, dest): dest's pointee becomes a deep copy of source's pointee (json round trip of a
		// struct with exported fields only: fresh slices and pointees, equal contents)
		if len(args) == 2 {
			src, ok1 := args[0].(PtrVal)
			dst, ok2 := args[1].(PtrVal)
			if ok1 && ok2 && src.L != nil && dst.L != nil {
				st.store(dst.L, st.deepCopyVal(st.load(src.L), 0))
			}
		}
		return nil
	}
	st.fail("engine-error", "unknown cut kind "+kind)
	return nil
}

func (st *State) deepCopyVal(v Val, depth int) Val {
	if depth > 8 {
		return v
	}
	switch x := v.(type) {
	case StructVal:
		out := StructVal{T: x.T, Fields: make([]Val, len(x.Fields))}
		for i, f := range x.Fields {
			out.Fields[i] = st.deepCopyVal(f, depth+1)
		}
		return out
	case ArrayVal:
		out := ArrayVal{T: x.T, Elems: make([]Val, len(x.Elems))}
		for i, f := range x.Elems {
			out.Elems[i] = st.deepCopyVal(f, depth+1)
		}
		return out
	case SliceVal:
		if x.Arr == nil {
			return x
		}
		n := int(st.concretize(x.Len, 64))
		elems := make([]Val, n)
		for i := 0; i < n; i++ {
			elems[i] = st.deepCopyVal(st.load(x.Arr.Elems[x.Off+i]), depth+1)
		}
		ns := st.mkSlice(x.ElemT, elems, 0)
		ns.IsNil = x.IsNil
		return ns
	case PtrVal:
		if x.L == nil {
			return x
		}
		l := st.newLoc(x.L.T, x.L.Name+".copy")
		st.store(l, st.deepCopyVal(st.load(x.L), depth+1))
		return PtrVal{L: l, IsNil: x.IsNil, T: x.T}
	}
	return v
}

func (st *State) zeroResult(sig *types.Signature) Val {
	rs := sig.Results()
	switch rs.Len() {
	case 0:
		return nil
	case 1:
		return st.zero(rs.At(0).Type())
	}
	tv := make(TupleVal, rs.Len())
	for i := range tv {
		tv[i] = st.zero(rs.At(i).Type())
	}
	return tv
}

func (st *State) replaceAll(args []Val) *Term {
	s, old, nw := st.strArg(args[0]), st.strArg(args[1]), st.strArg(args[2])
	if old.Const && old.Str == "" {
		st.fail("unsupported", "ReplaceAll with empty pattern")
	}
	return StrReplaceAll(s, old, nw)
}

func (st *State) strMap(op string, s *Term, f func(string) string) *Term {
	if s.Const {
		return Str(f(s.Str))
	}
	if s.BS != nil {
		// ASCII semantics (bytes >= 0x80 unchanged); Go's Unicode-aware mapping is outside the claim
		return bsTerm(bsMapASCII(s.BS, op == "str.to_lower"))
	}
	return &Term{S: "(" + op + " " + s.S + ")", Sort: SStr}
}

// trimCutset: only single-byte cutsets are supported (exact): strip leading/trailing copies.
func (st *State) trimCutset(s, cut *Term) *Term {
	if !cut.Const || len(cut.Str) != 1 {
		st.fail("unsupported", "bytes.Trim with non single-byte cutset")
	}
	if s.Const {
		return Str(strings.Trim(s.Str, cut.Str))
	}
	if s.BS != nil {
		return bsTerm(bsTrimByte(s.BS, cut.Str[0]))
	}
	// result r: s = pre ++ r ++ suf, pre and suf consist only of the cut byte, r neither starts nor ends with it
	r := st.freshVar("trim", SStr)
	pre := st.freshVar("trim.pre", SStr)
	suf := st.freshVar("trim.suf", SStr)
	c := smtStr(cut.Str)
	st.assume(&Term{S: fmt.Sprintf("(= %s (str.++ %s %s %s))", s.S, pre.S, r.S, suf.S), Sort: SBool})
	st.assume(&Term{S: fmt.Sprintf("(str.in_re %s (re.* (str.to_re %s)))", pre.S, c), Sort: SBool})
	st.assume(&Term{S: fmt.Sprintf("(str.in_re %s (re.* (str.to_re %s)))", suf.S, c), Sort: SBool})
	st.assume(&Term{S: fmt.Sprintf("(not (str.prefixof %s %s))", c, r.S), Sort: SBool})
	st.assume(&Term{S: fmt.Sprintf("(not (str.suffixof %s %s))", c, r.S), Sort: SBool})
	return r
}

// strSplit: strings.Split(s, sep) for a single-byte constant separator, up to 3 separators (forks).
func (st *State) strSplit(s, sep *Term) Val {
	strT := types.Typ[types.String]
	if s.Const && sep.Const {
		parts := strings.Split(s.Str, sep.Str)
		var vs []Val
		for _, p := range parts {
			vs = append(vs, Str(p))
		}
		return st.mkSlice(strT, vs, 0)
	}
	if !sep.Const || len(sep.Str) != 1 {
		st.fail("unsupported", "strings.Split with non-constant or multi-byte separator")
	}
	// number of separators k in 0..3 (beyond: stated bound)
	const maxSep = 3
	rest := s
	var parts []Val
	for k := 0; k <= maxSep; k++ {
		has := StrContains(rest, sep)
		if !st.branch(has) {
			parts = append(parts, rest)
			return st.mkSlice(strT, parts, 0)
		}
		if k == maxSep {
			st.eng.Res.Incomplete = append(st.eng.Res.Incomplete, "strings.Split: more than 3 separators cut off (bound)")
			st.fail("unwind", "split bound")
		}
		var i *Term
		if rest.BS != nil {
			i, _ = bsIndexByte(rest.BS, sep.Str[0])
		} else {
			idx := &Term{S: "(str.indexof " + rest.S + " " + sep.S + " 0)", Sort: SBV(64)}
			i = fromInt(64, idx.S)
		}
		parts = append(parts, StrSub(rest, BV(64, 0), i))
		rest = StrSub(rest, Arith("+", i, BV(64, 1), true), StrLen(rest))
	}
	return nil
}

// bsDecimal: decimal text of an unsigned value known to be < 10^maxDigits (byte-vector mode).
func (st *State) bsDecimal(t *Term, maxDigits int) *Term {
	// the caller guarantees t < 10^maxDigits: the narrowest exact width is much cheaper to bit-blast
	switch {
	case maxDigits <= 2:
		t = Resize(t, 8, false)
	case maxDigits <= 4:
		t = Resize(t, 16, false)
	default:
		t = Resize(t, 32, false)
	}
	w := t.Sort.W
	// digits d[k] = (t / 10^k) % 10, number of digits n = 1 + #(k>=1 with t >= 10^k)
	pow := uint64(1)
	var digs []*Term
	n := BV(64, 1)
	for k := 0; k < maxDigits; k++ {
		d := Arith("%", Arith("/", t, BV(w, pow), false), BV(w, 10), false)
		digs = append(digs, st.name(Arith("+", Resize(d, 8, false), BV(8, '0'), false), "dig"))
		if k >= 1 {
			n = Ite(Cmp(">=", t, BV(w, pow), false), idx64(k+1), n)
		}
		pow *= 10
	}
	n = st.name(n, "ndig")
	out := &BStr{ctx: st, Len: n}
	// out[j] = digit index n-1-j
	for j := 0; j < maxDigits; j++ {
		r := BV(8, 0)
		for k := maxDigits - 1; k >= 0; k-- {
			r = Ite(bvEq(Arith("+", idx64(j), idx64(k+1), false), n), digs[k], r)
		}
		out.B = append(out.B, st.name(r, "decb"))
	}
	return bsTerm(out)
}

func (st *State) intToStr(t *Term, sg bool) *Term {
	if BVStrMode {
		// bounded: values below 10^6 (unwinding assertion on the rest)
		lim := BV(t.Sort.W, 1000000)
		ok := Cmp("<", t, lim, false)
		if !st.branch(ok) {
			st.eng.Res.Incomplete = append(st.eng.Res.Incomplete, "integer formatting: value >= 10^6 outside the stated bound")
			st.fail("unwind", "itoa bound")
		}
		if st.branch(Cmp("<", t, BV(t.Sort.W, 100), false)) {
			return st.bsDecimal(t, 2)
		}
		if st.branch(Cmp("<", t, BV(t.Sort.W, 10000), false)) {
			return st.bsDecimal(t, 4)
		}
		return st.bsDecimal(t, 6)
	}
	// only non-negative values are converted exactly; negative ones get "-" prefix
	i := intOf(t)
	if sg && t.I == "" {
		// signed interpretation
		i = fmt.Sprintf("(ite (bvslt %s #x0000000000000000) (- (bv2nat %s) 18446744073709551616) (bv2nat %s))", t.S, t.S, t.S)
	}
	return &Term{S: fmt.Sprintf("(ite (< %s 0) (str.++ \"-\" (str.from_int (- %s))) (str.from_int %s))", i, i, i), Sort: SStr}
}

func (st *State) parseUint(s *Term, args []Val) Val {
	// (uint64, error): exact for base 10: error iff s is not a non-empty digit string or out of range
	if s.Const {
		var v uint64
		ok := len(s.Str) > 0
		for _, c := range s.Str {
			if c < '0' || c > '9' {
				ok = false
				break
			}
			v = v*10 + uint64(c-'0')
		}
		if ok {
			return TupleVal{BV(64, v), IfaceVal{}}
		}
		return TupleVal{BV(64, 0), st.newErr(Str("parse error"))}
	}
	if s.BS != nil {
		// all bytes digits, 1 <= len <= 9 (longer digit strings: stated bound)
		b := s.BS
		okLen := And(Cmp(">=", b.Len, idx64(1), false), Cmp("<=", b.Len, idx64(9), false))
		allDig := True
		val := BV(32, 0) // <= 9 digits fit into 30 bits
		for i := 0; i < len(b.B) && i < 9; i++ {
			in := Cmp("<", idx64(i), b.Len, false)
			isD := And(Cmp(">=", b.B[i], BV(8, '0'), false), Cmp("<=", b.B[i], BV(8, '9'), false))
			allDig = And(allDig, Or(Not(in), isD))
			dv := Resize(Arith("-", b.B[i], BV(8, '0'), false), 32, false)
			val = st.name(Ite(in, Arith("+", Arith("*", val, BV(32, 10), false), dv, false), val), "puv")
		}
		val = Resize(val, 64, false)
		if len(b.B) > 9 {
			long := Cmp(">", b.Len, idx64(9), false)
			if st.branch(long) {
				st.eng.Res.Incomplete = append(st.eng.Res.Incomplete, "ParseUint: more than 9 digits outside the stated bound")
				st.fail("unwind", "parseuint bound")
			}
		}
		if st.branch(And(okLen, allDig)) {
			return TupleVal{st.name(val, "pu"), IfaceVal{}}
		}
		return TupleVal{BV(64, 0), st.newErr(Str("parse error"))}
	}
	bits := args[2].(*Term)
	isNum := &Term{S: "(>= (str.to_int " + s.S + ") 0)", Sort: SBool}
	lim := "18446744073709551615"
	if bits.Const && bits.U == 32 {
		lim = "4294967295"
	}
	inRange := &Term{S: "(<= (str.to_int " + s.S + ") " + lim + ")", Sort: SBool}
	if st.branch(And(isNum, inRange)) {
		return TupleVal{fromInt(64, "(str.to_int "+s.S+")"), IfaceVal{}}
	}
	return TupleVal{BV(64, 0), st.newErr(Str("parse error"))}
}

// sprintf supports the literal formats used by the repository.
func (st *State) sprintf(args []Val) Val {
	f, ok := args[0].(*Term)
	if !ok || !f.Const {
		return st.freshVar("sprintf", SStr)
	}
	var vals []Val
	if len(args) > 1 {
		if sv, ok := args[1].(SliceVal); ok && sv.Arr != nil {
			vals = st.sliceElems(sv)
		}
	}
	out := Str("")
	format := f.Str
	ai := 0
	for i := 0; i < len(format); i++ {
		c := format[i]
		if c != '%' {
			out = StrConcat(out, Str(string(c)))
			continue
		}
		// parse verb
		j := i + 1
		for j < len(format) && strings.ContainsRune("0123456789.+-# ", rune(format[j])) {
			j++
		}
		if j >= len(format) {
			return st.freshVar("sprintf", SStr)
		}
		verb := format[j]
		flags := format[i+1 : j]
		i = j
		if verb == '%' {
			out = StrConcat(out, Str("%"))
			continue
		}
		if ai >= len(vals) {
			return st.freshVar("sprintf", SStr)
		}
		a := vals[ai]
		ai++
		iv, _ := a.(IfaceVal)
		switch verb {
		case 's', 'v', 'd':
			switch x := iv.V.(type) {
			case *Term:
				switch x.Sort.K {
				case KStr:
					out = StrConcat(out, x)
				case KBool:
					out = StrConcat(out, Ite(x, Str("true"), Str("false")))
				case KBV:
					out = StrConcat(out, st.intToStr(Resize(x, 64, isSigned(iv.Dyn)), isSigned(iv.Dyn)))
				}
			case BuiltinErr:
				out = StrConcat(out, x.Msg)
			default:
				out = StrConcat(out, st.freshVar("fmtarg", SStr))
			}
		case 'x':
			// hex of a byte slice: %0x / %x
			_ = flags
			switch x := iv.V.(type) {
			case SliceVal, BytesVal:
				bs := st.sliceElems(x)
				for _, b := range bs {
					out = StrConcat(out, st.hexByte(b.(*Term)))
				}
			default:
				out = StrConcat(out, st.freshVar("fmthex", SStr))
			}
		default:
			out = StrConcat(out, st.freshVar("fmtarg", SStr))
		}
	}
	return out
}

const hexdigits = "0123456789abcdef"

func (st *State) hexByte(b *Term) *Term {
	if b.Const {
		return Str(fmt.Sprintf("%02x", b.U))
	}
	if BVStrMode {
		nib := func(n *Term) *Term {
			lt := Cmp("<", n, BV(8, 10), false)
			return Ite(lt, Arith("+", n, BV(8, '0'), false), Arith("+", n, BV(8, 'a'-10), false))
		}
		hiN := Arith(">>", b, BV(8, 4), false)
		loN := Arith("&", b, BV(8, 15), false)
		return bsTerm(&BStr{ctx: st, Len: BV(64, 2), B: []*Term{nib(hiN), nib(loN)}})
	}
	hi := fmt.Sprintf("(bv2nat ((_ extract 7 4) %s))", b.S)
	lo := fmt.Sprintf("(bv2nat ((_ extract 3 0) %s))", b.S)
	return &Term{S: fmt.Sprintf("(str.++ (str.at %s %s) (str.at %s %s))", smtStr(hexdigits), hi, smtStr(hexdigits), lo), Sort: SStr}
}

// ---------- encoding/json (abstract: assumption JSON-AM) ----------

func (st *State) jsonUnmarshal(args []Val) Val {
	data := st.strArg(args[0])
	// target: pointer (possibly wrapped in interfaces / pointer to interface)
	tgt := args[1]
	var l *Loc
	for depth := 0; depth < 4; depth++ {
		switch x := tgt.(type) {
		case IfaceVal:
			tgt = x.V
			continue
		case PtrVal:
			if x.L == nil {
				return st.newErr(Str("json: Unmarshal(nil)"))
			}
			if _, isIface := x.L.T.Underlying().(*types.Interface); isIface {
				tgt = st.load(x.L)
				continue
			}
			l = x.L
		}
		break
	}
	if l == nil {
		return st.newErr(Str("json: Unmarshal(non-pointer)"))
	}
	key := "json:" + typeStr(l.T) + ":" + data.S
	tn := typeStr(l.T)
	if i := strings.LastIndex(tn, "."); i >= 0 {
		tn = tn[i+1:]
	}
	st.eng.stubs["encoding/json.Unmarshal(any value or error; same text => same answer)"] = true
	type cached struct {
		err Val
		val Val
	}
	if c, ok := st.jsonCache[key]; ok {
		cc := c.(cached)
		if ie, _ := cc.err.(IfaceVal); ie.Dyn == nil {
			st.store(l, cc.val)
		}
		return cc.err
	}
	// WIRE-RT: text marshalled by the library from a struct of type T' parses into T' unchanged,
	// into any other struct type it yields the zero value without error (unknown members are ignored)
	if pv := st.provOf(args[0]); len(pv) > 0 {
		for _, p := range pv {
			if p.Kind != "marshal" || p.T == nil {
				continue
			}
			src := p.T
			val := p.V
			if pp, ok := src.Underlying().(*types.Pointer); ok {
				src = pp.Elem()
				if pval, ok := val.(PtrVal); ok && pval.L != nil {
					val = st.load(pval.L)
				}
			}
			st.eng.stubs["encoding/json round trip of the library's own structs (WIRE-RT)"] = true
			if types.Identical(src, l.T) {
				st.store(l, val)
			} else {
				st.store(l, st.zero(l.T))
			}
			st.jsonCache[key] = cached{err: IfaceVal{}, val: st.load(l)}
			return IfaceVal{}
		}
	}
	// empty input is always an error ("unexpected end of JSON input")
	if data.Const && data.Str == "" {
		er := st.newErr(Str("unexpected end of JSON input"))
		st.jsonCache[key] = cached{err: er}
		return er
	}
	isErr := st.freshVar("json."+tn+".err", SBool)
	if !data.Const {
		st.assume(Implies(Eq(data, Str("")), isErr))
	}
	st.draws = append(st.draws, Draw{Name: "json." + tn + ".err", Kind: "bool", Term: isErr.S})
	if st.branch(isErr) {
		er := st.newErr(Str("json: error"))
		st.jsonCache[key] = cached{err: er}
		st.jsonCalls = append(st.jsonCalls, jsonCall{T: l.T, Err: isErr, Data: data.S})
		return er
	}
	v := st.fresh(l.T, "json."+tn, 0)
	st.jsonCalls = append(st.jsonCalls, jsonCall{T: l.T, Err: isErr, Val: v, Data: data.S})
	st.storeDecoded(l, v)
	st.jsonCache[key] = cached{err: IfaceVal{}, val: v}
	st.logf("json.Unmarshal(%s) ok", tn)
	return IfaceVal{}
}

func (st *State) jsonMarshal(args []Val) Val {
	iv, _ := args[0].(IfaceVal)
	s := st.freshVar("marshal", SStr)
	st.eng.stubs["encoding/json.Marshal(opaque text with provenance, never fails for library structs)"] = true
	st.assume(Cmp(">=", StrLen(s), BV(64, 3), true))
	bv := BytesVal{S: s, IsNil: False, Prov: []Prov{{Kind: "marshal", T: iv.Dyn, V: iv.V}}}
	st.prov[s.S] = bv.Prov
	return TupleVal{bv, IfaceVal{}}
}

var _ = token.NoPos
