package symex

import (
	"fmt"
	"go/types"
	"reflect"
	"regexp"
	"strconv"
	"strings"
)

// jsonCall records one stubbed json.Unmarshal so that a model can be turned into real bytes.
type jsonCall struct {
	T    types.Type
	Err  *Term // nil: decided (see ErrC)
	ErrC bool
	Val  Val
	Data string
}

type containsObs struct {
	Hay    string
	Needle string
	T      *Term
}

// JSONDoc is the concretised result of one json.Unmarshal stub under a model.
type JSONDoc struct {
	Type string      `json:"type"`
	Err  bool        `json:"err"`
	Doc  interface{} `json:"doc"`
	Data string      `json:"data"`
	Keys []string    `json:"keys"`
	Root string      `json:"root"` // name of the harness draw (frame) the parsed text was derived from
}

type ContainsVal struct {
	Root   string `json:"root"`
	Hay    string `json:"hay"`
	Needle string `json:"needle"`
	Val    bool   `json:"val"`
}

// ParseSMTString decodes an SMT-LIB string literal as printed by z3 / cvc5.
func ParseSMTString(s string) (string, bool) {
	s = strings.TrimSpace(s)
	if len(s) < 2 || s[0] != '"' || s[len(s)-1] != '"' {
		return "", false
	}
	s = s[1 : len(s)-1]
	var out []byte
	for i := 0; i < len(s); i++ {
		c := s[i]
		if c == '"' && i+1 < len(s) && s[i+1] == '"' {
			out = append(out, '"')
			i++
			continue
		}
		if c == '\\' && i+1 < len(s) && s[i+1] == 'u' {
			// \u{X..} or \uXXXX
			if i+2 < len(s) && s[i+2] == '{' {
				j := strings.IndexByte(s[i:], '}')
				if j > 0 {
					v, err := strconv.ParseUint(s[i+3:i+j], 16, 32)
					if err == nil {
						if v < 256 {
							out = append(out, byte(v))
						} else {
							out = append(out, []byte(string(rune(v)))...)
						}
						i += j
						continue
					}
				}
			} else if i+5 < len(s) {
				v, err := strconv.ParseUint(s[i+2:i+6], 16, 32)
				if err == nil {
					if v < 256 {
						out = append(out, byte(v))
					} else {
						out = append(out, []byte(string(rune(v)))...)
					}
					i += 5
					continue
				}
			}
		}
		if c == '\\' && i+1 < len(s) && s[i+1] == 'x' && i+3 < len(s) {
			v, err := strconv.ParseUint(s[i+2:i+4], 16, 8)
			if err == nil {
				out = append(out, byte(v))
				i += 3
				continue
			}
		}
		out = append(out, c)
	}
	return string(out), true
}

func (st *State) evalTerm(t *Term) interface{} {
	if t.Sort.K == KStr && t.BS != nil && !t.Const {
		return st.evalBStr(t.BS)
	}
	if t.Const {
		switch t.Sort.K {
		case KBool:
			return t.U == 1
		case KStr:
			return t.Str
		default:
			return t.U
		}
	}
	mv := st.sol.GetValues([]string{t.S})
	v := mv[t.S]
	switch t.Sort.K {
	case KBool:
		return strings.TrimSpace(v) == "true"
	case KStr:
		s, _ := ParseSMTString(v)
		return s
	default:
		u, _ := parseBV(v)
		return u
	}
}

type omitT struct{}

// evalVal turns a symbolic value into a plain Go value (maps keyed by JSON names) under the current model.
func (st *State) evalVal(v Val, t types.Type) interface{} {
	switch x := v.(type) {
	case *Term:
		r := st.evalTerm(x)
		if u, ok := r.(uint64); ok && isSigned(t) {
			return signed(x.Sort.W, u)
		}
		return r
	case PtrVal:
		isNil := true
		if x.IsNil != nil {
			isNil = st.evalTerm(x.IsNil).(bool)
		} else {
			isNil = x.L == nil
		}
		if isNil || x.L == nil {
			return omitT{}
		}
		return st.evalVal(st.load(x.L), x.L.T)
	case StructVal:
		stt := x.T.Underlying().(*types.Struct)
		var keys []string
		m := map[string]interface{}{}
		for i := 0; i < stt.NumFields(); i++ {
			f := stt.Field(i)
			name := f.Name()
			tag := reflect.StructTag(stt.Tag(i)).Get("json")
			if tag == "-" {
				continue
			}
			if tag != "" {
				if n := strings.Split(tag, ",")[0]; n != "" {
					name = n
				}
			}
			fv := st.evalVal(x.Fields[i], f.Type())
			if _, om := fv.(omitT); om {
				continue
			}
			keys = append(keys, name)
			m[name] = fv
		}
		return map[string]interface{}{"__keys": keys, "__obj": m}
	case SliceVal:
		if st.evalTerm(x.IsNil).(bool) {
			return omitT{}
		}
		if isRawMessage(t) {
			n := int(st.evalTerm(x.Len).(uint64))
			buf := []byte{}
			for i := 0; i < n && x.Arr != nil && x.Off+i < len(x.Arr.Elems); i++ {
				if bt, ok := st.load(x.Arr.Elems[x.Off+i]).(*Term); ok {
					buf = append(buf, byte(st.evalTerm(bt).(uint64)))
				}
			}
			return map[string]interface{}{"__raw": string(buf)}
		}
		n := int(st.evalTerm(x.Len).(uint64))
		out := []interface{}{}
		for i := 0; i < n && x.Arr != nil && x.Off+i < len(x.Arr.Elems); i++ {
			out = append(out, st.evalVal(st.load(x.Arr.Elems[x.Off+i]), x.ElemT))
		}
		return out
	case BytesVal:
		if st.evalTerm(x.IsNil).(bool) {
			return omitT{}
		}
		return map[string]interface{}{"__raw": st.evalTerm(x.S)}
	case ArrayVal:
		out := []interface{}{}
		et := x.T.Underlying().(*types.Array).Elem()
		for _, e := range x.Elems {
			out = append(out, st.evalVal(e, et))
		}
		return out
	case IfaceVal:
		return omitT{}
	}
	return fmt.Sprintf("<%T>", v)
}

var rootRe = regexp.MustCompile(`\bmsg(![0-9]+)?\b`)

// rootOf follows uninterpreted-function results back to the frame variable (msg, msg!1, ...) they derive from.
func (st *State) rootOf(text string) string {
	for depth := 0; depth < 6; depth++ {
		if m := rootRe.FindString(text); m != "" {
			return m
		}
		next := ""
		for name, arg := range st.ufArg {
			if strings.Contains(text, name) && len(name) > len(next) {
				next = name
				_ = arg
			}
		}
		if next == "" {
			return ""
		}
		text = st.ufArg[next]
	}
	return ""
}

func (st *State) concretizeJSON() ([]JSONDoc, []ContainsVal) {
	var docs []JSONDoc
	for _, jc := range st.jsonCalls {
		d := JSONDoc{Type: typeStr(jc.T), Data: jc.Data, Root: st.rootOf(jc.Data)}
		if i := strings.LastIndex(d.Type, "."); i >= 0 {
			d.Type = d.Type[i+1:]
		}
		if stt, ok := jc.T.Underlying().(*types.Struct); ok {
			for i := 0; i < stt.NumFields(); i++ {
				name := stt.Field(i).Name()
				if tag := reflect.StructTag(stt.Tag(i)).Get("json"); tag != "" && tag != "-" {
					if n := strings.Split(tag, ",")[0]; n != "" {
						name = n
					}
				}
				d.Keys = append(d.Keys, name)
			}
		}
		if jc.Err != nil {
			d.Err = st.evalTerm(jc.Err).(bool)
		} else {
			d.Err = jc.ErrC
		}
		if !d.Err && jc.Val != nil {
			d.Doc = st.evalVal(jc.Val, jc.T)
		}
		docs = append(docs, d)
	}
	var cs []ContainsVal
	for _, c := range st.containsObs {
		cs = append(cs, ContainsVal{Root: st.rootOf(c.Hay), Hay: c.Hay, Needle: c.Needle, Val: st.evalTerm(c.T).(bool)})
	}
	return docs, cs
}
