package symex

import (
	"fmt"
	"go/types"
	"strings"
	"unicode/utf8"

	"golang.org/x/tools/go/ssa"
)

func constStr(v Val) string {
	if t, ok := v.(*Term); ok && t.Const {
		return t.Str
	}
	return "?"
}

// intrinsic implements the zzvrt harness runtime inside the engine.
func (st *State) intrinsic(g *G, fr *Frame, name string, fn *ssa.Function, args []Val, sig *types.Signature, res *ssa.Call) (Val, bool) {
	pos := instrPos2(res, fr)
	// generic instantiations look like Fresh[T]
	base := name
	if i := strings.Index(base, "["); i >= 0 {
		base = base[:i]
	}
	switch base {
	case "Symbolic":
		return True, false
	case "Bool":
		v := st.freshVar(constStr(args[0]), SBool)
		st.draws = append(st.draws, Draw{Name: constStr(args[0]), Kind: "bool", Term: v.S, T: v})
		return v, false
	case "Int":
		v := st.freshVar(constStr(args[0]), SBV(64))
		st.assume(And(Cmp(">=", v, args[1].(*Term), true), Cmp("<=", v, args[2].(*Term), true)))
		st.draws = append(st.draws, Draw{Name: constStr(args[0]), Kind: "int", Term: v.S, T: v})
		return v, false
	case "Uint":
		v := st.freshVar(constStr(args[0]), SBV(64))
		st.draws = append(st.draws, Draw{Name: constStr(args[0]), Kind: "uint", Term: v.S, T: v})
		return v, false
	case "Byte":
		v := st.freshVar(constStr(args[0]), SBV(8))
		st.draws = append(st.draws, Draw{Name: constStr(args[0]), Kind: "byte", Term: v.S, T: v})
		return v, false
	case "Str":
		v := st.freshVar(constStr(args[0]), SStr)
		st.draws = append(st.draws, Draw{Name: constStr(args[0]), Kind: "str", Term: v.S, T: v})
		return v, false
	case "StrMax":
		var v *Term
		if st.eng.Cfg.BVStr {
			v = st.freshBStr(st.freshName(constStr(args[0])), int(args[1].(*Term).U))
		} else {
			v = st.freshVar(constStr(args[0]), SStr)
			st.assume(Cmp("<=", StrLen(v), args[1].(*Term), true))
		}
		st.draws = append(st.draws, Draw{Name: constStr(args[0]), Kind: "str", Term: v.S, T: v})
		return v, false
	case "Bytes":
		v := st.freshVar(constStr(args[0]), SStr)
		st.draws = append(st.draws, Draw{Name: constStr(args[0]), Kind: "bytes", Term: v.S, T: v})
		return BytesVal{S: v, IsNil: False}, false
	case "Choice":
		n := int(args[1].(*Term).U)
		k := st.choose(n, nil)
		st.draws = append(st.draws, Draw{Name: constStr(args[0]), Kind: "choice", Value: fmt.Sprint(k)})
		return BV(64, uint64(k)), false
	case "Concrete":
		v := st.concretize(args[0].(*Term), 64)
		return BV(64, v), false
	case "Fresh":
		t := sig.Results().At(0).Type()
		nm := constStr(args[0])
		v := st.fresh(t, nm, 0)
		st.draws = append(st.draws, Draw{Name: nm, Kind: "fresh:" + typeStr(t)})
		return v, false
	case "Assume":
		c := args[0].(*Term)
		if c.IsFalse() {
			st.fail("assume-false", "")
		}
		if !c.IsTrue() {
			if st.sol.CheckWith(c.S).String() == "unsat" {
				st.fail("assume-false", "")
			}
			st.assume(c)
		}
		return nil, false
	case "Assert":
		id := constStr(args[1])
		st.softCheck(args[0].(*Term), id, "assertion "+id, pos)
		return nil, false
	case "Fail":
		id := constStr(args[0])
		st.softCheck(False, id, "reached Fail("+id+")", pos)
		return nil, false
	case "Cover":
		st.eng.Res.Covers[constStr(args[0])]++
		return nil, false
	case "Log":
		st.logf("%s", constStr(args[0]))
		return nil, false
	case "LogInt":
		t := args[1].(*Term)
		if t.Const {
			st.logf("%s %d", constStr(args[0]), signed(t.Sort.W, t.U))
		} else {
			st.logf("%s %s", constStr(args[0]), t.S)
		}
		return nil, false
	case "LogStr":
		t := args[1].(*Term)
		if t.Const {
			st.logf("%s %q", constStr(args[0]), t.Str)
		} else {
			st.logf("%s %s", constStr(args[0]), t.S)
		}
		return nil, false
	case "Yield":
		return nil, false
	case "FireTimersUpTo":
		// time advances to `d`: every pending timer channel with a constant duration <= d becomes ready
		lim := args[0].(*Term)
		n := 0
		mark := func(c *ChanObj) {
			if c != nil && c.Timer && !c.Fired && !c.Ready && c.TimerD != nil && c.TimerD.Const && lim.Const && signed(64, c.TimerD.U) <= signed(64, lim.U) {
				c.Ready = true
				n++
			}
		}
		for _, o := range st.gs {
			if o.Status != "blocked" || o.Wait == nil {
				continue
			}
			mark(o.Wait.ch)
			for _, sc := range o.Wait.sel {
				mark(sc.ch)
			}
		}
		return BV(64, uint64(n)), false
	case "FireTimers":
		// one-shot: every timer channel some goroutine currently waits on becomes ready (later timers are not affected)
		n := 0
		for _, o := range st.gs {
			if o.Status != "blocked" || o.Wait == nil {
				continue
			}
			if o.Wait.ch != nil && o.Wait.ch.Timer && !o.Wait.ch.Fired {
				o.Wait.ch.Ready = true
				n++
			}
			for _, sc := range o.Wait.sel {
				if sc.ch != nil && sc.ch.Timer && !sc.ch.Fired {
					sc.ch.Ready = true
					n++
				}
			}
		}
		return BV(64, uint64(n)), false
	case "FireTickers":
		// one tick: every ticker channel some goroutine currently waits on delivers once
		n := 0
		for _, o := range st.gs {
			if o.Status != "blocked" || o.Wait == nil {
				continue
			}
			for _, sc := range o.Wait.sel {
				if sc.ch != nil && sc.ch.Timer && sc.ch.Label == "ticker" && sc.ch.Fired {
					sc.ch.Fired = false
					sc.ch.Ready = true
					n++
				}
			}
			if c := o.Wait.ch; c != nil && c.Timer && c.Label == "ticker" && c.Fired {
				c.Fired = false
				c.Ready = true
				n++
			}
		}
		return BV(64, uint64(n)), false
	case "SetTimers":
		st.timersOn = args[0].(*Term).IsTrue()
		return nil, false
	case "SymbolicClock":
		// time becomes a solver variable: time.After(d) expires at clock+d, Advance(dt) moves the clock
		st.clock = BV(64, 0)
		return nil, false
	case "Advance":
		dt := args[0].(*Term)
		if st.clock == nil {
			return nil, false
		}
		st.assume(And(Cmp(">=", dt, BV(64, 0), true), Cmp("<=", dt, BV(64, 1<<50), true)))
		st.clock = Arith("+", st.clock, dt, true)
		st.clockVer++
		return nil, false
	case "Now":
		if st.clock == nil {
			return BV(64, 0), false
		}
		return st.clock, false
	case "SetTimerLimit":
		if t := args[0].(*Term); t.Const {
			st.timerLimit = signed(64, t.U)
		}
		return nil, false
	case "RunSpawned", "RunSpawnedExcept", "RunImmediate", "RunAll":
		// RunImmediate: every parked goroutine runs (name independent); with timers switched off the ones that sleep
		// first block at their time.After and continue when the harness lets that much time pass (FireTimersUpTo)
		match, except := "\x00no-such-goroutine", true
		if base != "RunImmediate" && base != "RunAll" {
			match = constStr(args[0])
			except = base == "RunSpawnedExcept"
		}
		var kids []int
		for _, o := range st.gs {
			if o.Status == "parked" && strings.Contains(o.Name, match) != except {
				o.Status = "runnable"
				kids = append(kids, o.ID)
			}
		}
		if len(kids) == 0 {
			return BV(64, 0), false
		}
		// block the caller until the children are done or blocked; result = number started
		if res != nil {
			fr.Regs[res] = BV(64, uint64(len(kids)))
		}
		fr.PC++
		g.Status = "blocked"
		g.Wait = &waitInfo{kind: "children", kids: kids}
		return contCall{}, false
	case "DropSpawned":
		match := constStr(args[0])
		n := 0
		for _, o := range st.gs {
			if o.Status == "parked" && strings.Contains(o.Name, match) {
				o.Status = "done"
				n++
			}
		}
		return BV(64, uint64(n)), false
	case "NumParked":
		match := constStr(args[0])
		n := 0
		for _, o := range st.gs {
			if o.Status == "parked" && strings.Contains(o.Name, match) {
				n++
			}
		}
		return BV(64, uint64(n)), false
	case "WaitQuiescent":
		w := &waitInfo{kind: "quiesce"}
		g.Wait = w
		g.Status = "blocked"
		if st.enabled(g) {
			g.Status = "runnable"
			g.Wait = nil
			return nil, false
		}
		// retry the call when re-enabled: emulate by advancing after wake-up
		fr.PC++
		return contCall{}, false
	case "NumBlocked":
		match := constStr(args[0])
		n := 0
		for _, o := range st.gs {
			if o != g && o.Status == "blocked" && strings.Contains(o.Name, match) {
				n++
			}
		}
		return BV(64, uint64(n)), false
	case "NumLive":
		match := constStr(args[0])
		n := 0
		for _, o := range st.gs {
			if o != g && o.Status != "done" && strings.Contains(o.Name, match) {
				n++
			}
		}
		return BV(64, uint64(n)), false
	case "LocksHeld":
		// number of mutexes the calling goroutine still holds (a handler that returns with a lock held wedges the next one)
		return BV(64, uint64(len(g.Held))), false
	case "MutexHeld":
		p := args[0].(PtrVal)
		if p.L != nil && p.L.Mu != nil && p.L.Mu.Locked {
			return True, false
		}
		return False, false
	case "ProvKind":
		// name of the (first) marshalled Go type a byte string was built from, "" if none
		if bv, ok := args[0].(BytesVal); ok {
			for _, p := range bv.Prov {
				if p.Kind == "marshal" && p.T != nil {
					s := typeStr(p.T)
					if i := strings.LastIndex(s, "."); i >= 0 {
						s = s[i+1:]
					}
					return Str(s), false
				}
			}
		}
		return Str(""), false
	case "ProvStr":
		// string field (by name path a.b) of the marshalled value a byte string was built from
		if bv, ok := args[0].(BytesVal); ok {
			for _, p := range bv.Prov {
				if p.Kind == "marshal" {
					if v := fieldByPath(p.T, p.V, constStr(args[1])); v != nil {
						switch x := v.(type) {
						case *Term:
							if x.Sort.K == KStr {
								return x, false
							}
						case PtrVal:
							if x.L != nil {
								if t, ok := st.load(x.L).(*Term); ok && t.Sort.K == KStr {
									return Ite(x.IsNil, Str("<nil>"), t), false
								}
							}
						}
					}
				}
			}
		}
		return Str("<none>"), false
	case "Fact":
		// Fact(tag, a, b, c): records a concrete fact (aggregated over all paths)
		key := constStr(args[0])
		for _, a := range args[1:] {
			t := a.(*Term)
			if t.Sort.K == KStr {
				if t.Const {
					key += ":" + t.Str
				} else {
					key += ":?"
				}
				continue
			}
			v := st.concretize(t, 64)
			key += fmt.Sprintf(":%d", signed(t.Sort.W, v))
		}
		st.eng.Res.Facts[key]++
		return nil, false
	case "JSONStr", "JSONState":
		// JSONStr: string at `path` of the most recent stubbed json.Unmarshal result of type `typ`.
		// JSONState: 0 = no such parse result, 1 = nil pointer / nil raw message, 2 = present.
		typ, path := constStr(args[0]), constStr(args[1])
		wantState := base == "JSONState"
		for i := len(st.jsonCalls) - 1; i >= 0; i-- {
			jc := st.jsonCalls[i]
			tn := typeStr(jc.T)
			if k := strings.LastIndex(tn, "."); k >= 0 {
				tn = tn[k+1:]
			}
			if tn != typ {
				continue
			}
			if jc.Val == nil {
				break // the most recent parse into this type failed: no result
			}
			v := fieldByPath(jc.T, jc.Val, path)
			switch x := v.(type) {
			case *Term:
				if x.Sort.K == KStr {
					if wantState {
						return BV(64, 2), false
					}
					return x, false
				}
			case BytesVal:
				if wantState {
					return Ite(x.IsNil, BV(64, 1), BV(64, 2)), false
				}
				return x.S, false
			case SliceVal:
				if wantState {
					return Ite(x.IsNil, BV(64, 1), BV(64, 2)), false
				}
				return st.bytesToStr(x), false
			case PtrVal:
				if x.L != nil {
					if t, ok := st.load(x.L).(*Term); ok && t.Sort.K == KStr {
						if wantState {
							return Ite(x.IsNil, BV(64, 1), BV(64, 2)), false
						}
						return t, false
					}
				}
			}
		}
		if wantState {
			return BV(64, 0), false
		}
		return Str(""), false
	case "FieldStr", "FieldInt", "FieldBool":
		// reads an (unexported) field of the struct a pointer / interface points to
		var v Val = args[0]
		if iv, ok := v.(IfaceVal); ok {
			v = iv.V
		}
		p, ok := v.(PtrVal)
		if !ok || p.L == nil {
			st.fail("engine-error", "FieldStr: not a pointer")
		}
		stt, ok := p.L.T.Underlying().(*types.Struct)
		if !ok {
			st.fail("engine-error", "FieldStr: not a struct")
		}
		fname := constStr(args[1])
		for i := 0; i < stt.NumFields(); i++ {
			if stt.Field(i).Name() == fname {
				fv := st.load(p.L.Elems[i])
				if t, ok := fv.(*Term); ok {
					if base == "FieldInt" && t.Sort.K == KBV {
						return Resize(t, 64, isSigned(stt.Field(i).Type())), false
					}
					return t, false
				}
			}
		}
		st.fail("engine-error", "FieldStr: no scalar field "+fname)
		return nil, false
	case "OrB":
		return Or(args[0].(*Term), args[1].(*Term)), false
	case "AndB":
		return And(args[0].(*Term), args[1].(*Term)), false
	case "NotB":
		return Not(args[0].(*Term)), false
	case "IteInt":
		return Ite(args[0].(*Term), args[1].(*Term), args[2].(*Term)), false
	case "BytesInRange":
		// every byte of s lies in [lo,hi] and is none of the bytes of `except` (one term, no forking)
		s := st.strArg(args[0])
		lo, hi := args[1].(*Term), args[2].(*Term)
		ex := constStr(args[3])
		if s.BS == nil && !s.Const {
			st.fail("unsupported", "BytesInRange needs byte-vector strings (-bvstr)")
		}
		b := bsOf(s)
		r := True
		for i, bt := range b.B {
			ok := And(Cmp(">=", bt, lo, false), Cmp("<=", bt, hi, false))
			for k := 0; k < len(ex); k++ {
				ok = And(ok, Not(bvEq(bt, BV(8, uint64(ex[k])))))
			}
			r = And(r, Or(Cmp("<=", b.Len, idx64(i), false), ok))
		}
		return r, false
	case "ValidUTF8":
		return st.intrinsicValidUTF8(st.strArg(args[0])), false
	case "Param":
		// harness parameter supplied on the command line (-param name=value); recorded as a draw for the native twin
		name := constStr(args[0])
		v, ok := st.eng.Cfg.Params[name]
		if !ok {
			v = int(signed(64, args[1].(*Term).U))
		}
		st.draws = append(st.draws, Draw{Name: name, Kind: "param", Value: fmt.Sprint(v)})
		return BV(64, uint64(int64(v))), false
	case "DumpAccesses":
		// records every logged access as a fact "acc|tag|loc|name|w|locks|pos|fn" (aggregated over paths)
		tag := constStr(args[0])
		for _, a := range st.accessLog {
			id := 0
			if a.Loc != nil {
				if a.Loc.Fresh {
					continue // objects created by the operation itself are private until published under a lock
				}
				id = a.Loc.ID
			} else if a.Map != nil {
				id = -a.Map.ID
			}
			w := 0
			if a.Write {
				w = 1
			}
			locks := ""
			for i, l := range a.Locks {
				if i > 0 {
					locks += ","
				}
				locks += fmt.Sprint(l)
			}
			st.eng.Res.Facts[fmt.Sprintf("acc|%s|%d|%s|%d|%s|%s|%s", tag, id, a.Name, w, locks, a.Pos, shortName(a.Fn))]++
		}
		return nil, false
	case "StartAccessLog":
		st.logAccess = true
		return nil, false
	}
	st.fail("engine-error", "unknown zzvrt intrinsic "+name)
	return nil, false
}

func fieldByPath(t types.Type, v Val, path string) Val {
	if path == "" {
		return v
	}
	parts := strings.SplitN(path, ".", 2)
	rest := ""
	if len(parts) > 1 {
		rest = parts[1]
	}
	sv, ok := v.(StructVal)
	if !ok {
		return nil
	}
	stt, ok := sv.T.Underlying().(*types.Struct)
	if !ok {
		return nil
	}
	for i := 0; i < stt.NumFields(); i++ {
		if stt.Field(i).Name() == parts[0] {
			return fieldByPath(stt.Field(i).Type(), sv.Fields[i], rest)
		}
	}
	return nil
}

// intrinsicValidUTF8: exact utf8.ValidString as one term over the byte vector.
func (st *State) intrinsicValidUTF8(sv *Term) *Term {
	if sv.Const {
		return Bool(utf8.ValidString(sv.Str))
	}
	if sv.BS == nil {
		st.fail("unsupported", "ValidUTF8 needs byte-vector strings")
	}
	b := sv.BS
	need := BV(8, 0)
	lo, hi := BV(8, 0x80), BV(8, 0xbf)
	ok := True
	rng := func(x *Term, a, c uint64) *Term {
		return And(Cmp(">=", x, BV(8, a), false), Cmp("<=", x, BV(8, c), false))
	}
	for i, bt := range b.B {
		in := Cmp("<", idx64(i), b.Len, false)
		lead := bvEq(need, BV(8, 0))
		// lead byte classes
		ascii := Cmp("<", bt, BV(8, 0x80), false)
		c2 := rng(bt, 0xc2, 0xdf)
		e0 := bvEq(bt, BV(8, 0xe0))
		e1 := Or(rng(bt, 0xe1, 0xec), rng(bt, 0xee, 0xef))
		ed := bvEq(bt, BV(8, 0xed))
		f0 := bvEq(bt, BV(8, 0xf0))
		f1 := rng(bt, 0xf1, 0xf3)
		f4 := bvEq(bt, BV(8, 0xf4))
		leadOK := Or(Or(Or(ascii, c2), Or(e0, e1)), Or(Or(ed, f0), Or(f1, f4)))
		contOK := And(Cmp(">=", bt, lo, false), Cmp("<=", bt, hi, false))
		ok = And(ok, Or(Not(in), Ite(lead, leadOK, contOK)))
		newNeed := Ite(lead,
			Ite(ascii, BV(8, 0), Ite(c2, BV(8, 1), Ite(Or(Or(e0, e1), ed), BV(8, 2), BV(8, 3)))),
			Arith("-", need, BV(8, 1), false))
		newLo := Ite(lead, Ite(e0, BV(8, 0xa0), Ite(f0, BV(8, 0x90), BV(8, 0x80))), BV(8, 0x80))
		newHi := Ite(lead, Ite(ed, BV(8, 0x9f), Ite(f4, BV(8, 0x8f), BV(8, 0xbf))), BV(8, 0xbf))
		need = st.name(Ite(in, newNeed, need), "u8need")
		lo = st.name(Ite(in, newLo, lo), "u8lo")
		hi = st.name(Ite(in, newHi, hi), "u8hi")
		ok = st.name(ok, "u8ok")
	}
	return And(ok, bvEq(need, BV(8, 0)))
}
