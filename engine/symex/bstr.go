package symex

import (
	"fmt"
)

// BStr is the bounded byte-vector representation of a Go string / []byte:
// a symbolic length and Cap byte terms. Bytes at positions >= Len are don't-care.
// All string predicates reduce to QF_BV, which z3 decides quickly for small Cap
// (the SMT String theory answers `unknown` on replace_all / to_lower queries).
type BStr struct {
	Len *Term   // BV64
	B   []*Term // BV8, len(B) = capacity
	ctx *State  // for naming intermediate terms (nil for constants)
}

func bsConst(s string) *BStr {
	b := &BStr{Len: BV(64, uint64(len(s)))}
	for i := 0; i < len(s); i++ {
		b.B = append(b.B, BV(8, uint64(s[i])))
	}
	return b
}

func bsTerm(b *BStr) *Term {
	t := &Term{S: "<bstr>", Sort: SStr, BS: b}
	if b.Len.Const {
		all := true
		n := int(b.Len.U)
		buf := make([]byte, 0, n)
		for i := 0; i < n && i < len(b.B); i++ {
			if !b.B[i].Const {
				all = false
				break
			}
			buf = append(buf, byte(b.B[i].U))
		}
		if all && n <= len(b.B) {
			t.Const = true
			t.Str = string(buf)
			t.S = smtStr(t.Str)
		}
	}
	return t
}

// bsOf returns the byte-vector view of a string term (constants are converted).
func bsOf(t *Term) *BStr {
	if t.BS != nil {
		return t.BS
	}
	if t.Const {
		return bsConst(t.Str)
	}
	panic("bsOf: SMT-string term in byte-vector mode: " + t.S)
}

func pickCtx(xs ...*BStr) *State {
	for _, x := range xs {
		if x != nil && x.ctx != nil {
			return x.ctx
		}
	}
	return nil
}

// name introduces a fresh constant equal to t when t is large (keeps terms DAG-like).
func (st *State) name(t *Term, base string) *Term {
	if st == nil || t.Const || len(t.S) < 120 {
		return t
	}
	v := st.freshVar(base, t.Sort)
	st.assume(&Term{S: "(= " + v.S + " " + t.S + ")", Sort: SBool})
	return v
}

func (st *State) freshBStr(base string, capacity int) *Term {
	b := &BStr{ctx: st}
	b.Len = st.freshVar(base+".len", SBV(64))
	st.assume(Cmp("<=", b.Len, BV(64, uint64(capacity)), false))
	for i := 0; i < capacity; i++ {
		b.B = append(b.B, st.freshVar(fmt.Sprintf("%s.b%d", base, i), SBV(8)))
	}
	t := bsTerm(b)
	t.BSName = base
	return t
}

func idx64(i int) *Term { return BV(64, uint64(i)) }

func bvEq(a, b *Term) *Term {
	if a.Const && b.Const {
		return Bool(a.U == b.U)
	}
	if a.S == b.S {
		return True
	}
	return &Term{S: "(= " + a.S + " " + b.S + ")", Sort: SBool}
}

// byteAt: s[idx] as a mux over the capacity (idx assumed in range).
func bsByteAt(s *BStr, idx *Term) *Term {
	if idx.Const {
		if int(idx.U) < len(s.B) {
			return s.B[idx.U]
		}
		return BV(8, 0)
	}
	r := BV(8, 0)
	for i := len(s.B) - 1; i >= 0; i-- {
		r = Ite(bvEq(idx, idx64(i)), s.B[i], r)
	}
	return pickCtx(s).name(r, "byteat")
}

func bsEq(a, b *BStr) *Term {
	r := bvEq(a.Len, b.Len)
	n := len(a.B)
	if len(b.B) < n {
		n = len(b.B)
	}
	for i := 0; i < n; i++ {
		r = And(r, Or(Cmp("<=", a.Len, idx64(i), false), bvEq(a.B[i], b.B[i])))
	}
	// a length beyond the shorter capacity cannot be matched
	if len(a.B) != len(b.B) {
		r = And(r, Cmp("<=", a.Len, idx64(n), false))
	}
	return r
}

func bsConcat(a, b *BStr) *BStr {
	ctx := pickCtx(a, b)
	out := &BStr{ctx: ctx, Len: Arith("+", a.Len, b.Len, false)}
	capn := len(a.B) + len(b.B)
	if a.Len.Const {
		n := int(a.Len.U)
		out.B = append(out.B, a.B[:n]...)
		out.B = append(out.B, b.B...)
		return out
	}
	for j := 0; j < capn; j++ {
		var fromA *Term
		if j < len(a.B) {
			fromA = a.B[j]
		} else {
			fromA = BV(8, 0)
		}
		// b index = j - lenA
		r := BV(8, 0)
		for k := len(b.B) - 1; k >= 0; k-- {
			if k > j {
				continue
			}
			r = Ite(bvEq(Arith("+", a.Len, idx64(k), false), idx64(j)), b.B[k], r)
		}
		t := Ite(Cmp("<", idx64(j), a.Len, false), fromA, r)
		out.B = append(out.B, ctx.name(t, "cat"))
	}
	return out
}

// bsSub: s[lo:hi] (bounds checked by the caller).
func bsSub(s *BStr, lo, hi *Term) *BStr {
	ctx := pickCtx(s)
	out := &BStr{ctx: ctx, Len: Arith("-", hi, lo, false)}
	if lo.Const {
		l := int(lo.U)
		if l > len(s.B) {
			l = len(s.B)
		}
		out.B = append(out.B, s.B[l:]...)
		return out
	}
	for j := 0; j < len(s.B); j++ {
		out.B = append(out.B, bsByteAt(s, Arith("+", lo, idx64(j), false)))
	}
	return out
}

// matchAt: needle n (constant bytes) occurs in s at constant position i.
func bsMatchAt(s *BStr, n string, i int) *Term {
	if i+len(n) > len(s.B) {
		return False
	}
	r := Cmp("<=", idx64(i+len(n)), s.Len, false)
	for k := 0; k < len(n); k++ {
		r = And(r, bvEq(s.B[i+k], BV(8, uint64(n[k]))))
	}
	return r
}

func bsContainsConst(s *BStr, n string) *Term {
	if len(n) == 0 {
		return True
	}
	r := False
	for i := 0; i+len(n) <= len(s.B); i++ {
		r = Or(r, bsMatchAt(s, n, i))
	}
	return pickCtx(s).name(r, "contains")
}

// bsMatchSym: symbolic needle n occurs in s at constant position i.
func bsMatchSymAt(s, n *BStr, i int) *Term {
	r := Cmp("<=", Arith("+", idx64(i), n.Len, false), s.Len, false)
	for k := 0; k < len(n.B); k++ {
		var sb *Term
		if i+k < len(s.B) {
			sb = s.B[i+k]
		} else {
			sb = nil
		}
		inN := Cmp("<", idx64(k), n.Len, false)
		if sb == nil {
			r = And(r, Not(inN))
		} else {
			r = And(r, Or(Not(inN), bvEq(sb, n.B[k])))
		}
	}
	return r
}

func bsContains(s, n *BStr) *Term {
	if n.Len.Const {
		all := true
		buf := []byte{}
		for i := 0; i < int(n.Len.U) && i < len(n.B); i++ {
			if !n.B[i].Const {
				all = false
			} else {
				buf = append(buf, byte(n.B[i].U))
			}
		}
		if all {
			return bsContainsConst(s, string(buf))
		}
	}
	r := False
	for i := 0; i <= len(s.B); i++ {
		r = Or(r, bsMatchSymAt(s, n, i))
	}
	return pickCtx(s, n).name(r, "contains")
}

func bsPrefix(pre, s *BStr) *Term { return bsMatchSymAt(s, pre, 0) }

func bsSuffix(suf, s *BStr) *Term {
	// s ends with suf: exists offset o = len(s)-len(suf) >= 0 with match; offsets are constant candidates
	r := False
	for o := 0; o <= len(s.B); o++ {
		r = Or(r, And(bvEq(Arith("+", idx64(o), suf.Len, false), s.Len), bsMatchSymAt(s, suf, o)))
	}
	return pickCtx(s, suf).name(r, "suffix")
}

// bsReplaceAll: Go semantics (non-overlapping, left to right) for constant non-empty old.
func bsReplaceAll(s *BStr, old, nw string) *BStr {
	ctx := pickCtx(s)
	n := len(s.B)
	outCap := n
	if len(nw) > len(old) {
		outCap = (n/len(old))*len(nw) + n%len(old)
	}
	// scan state (8-bit position arithmetic: capacities stay far below 256)
	if outCap >= 250 || n >= 250 {
		panic("bsReplaceAll: capacity too large")
	}
	i8 := func(i int) *Term { return BV(8, uint64(i)) }
	len8 := Resize(s.Len, 8, false)
	skip := BV(8, 0) // positions still covered by the previous match
	o := BV(8, 0)    // output length so far
	type emit struct {
		at   *Term // output position
		cond *Term
		b    *Term
	}
	var emits []emit
	for i := 0; i < n; i++ {
		inRange := Cmp("<", i8(i), len8, false)
		skipping := Not(bvEq(skip, BV(8, 0)))
		m := And(And(inRange, Not(skipping)), bsMatchAt(s, old, i))
		m = ctx.name(m, "rm")
		plain := And(And(inRange, Not(skipping)), Not(m))
		plain = ctx.name(plain, "rp")
		for k := 0; k < len(nw); k++ {
			emits = append(emits, emit{at: Arith("+", o, i8(k), false), cond: m, b: BV(8, uint64(nw[k]))})
		}
		emits = append(emits, emit{at: o, cond: plain, b: s.B[i]})
		o = Ite(m, Arith("+", o, i8(len(nw)), false), Ite(plain, Arith("+", o, i8(1), false), o))
		o = ctx.name(o, "ro")
		skip = Ite(m, BV(8, uint64(len(old)-1)), Ite(skipping, Arith("-", skip, BV(8, 1), false), BV(8, 0)))
		skip = ctx.name(skip, "rs")
	}
	out := &BStr{ctx: ctx, Len: Resize(o, 64, false)}
	for j := 0; j < outCap; j++ {
		r := BV(8, 0)
		for e := len(emits) - 1; e >= 0; e-- {
			em := emits[e]
			if em.cond.IsFalse() {
				continue
			}
			// an emit at scan step e/(len(nw)+1) cannot land beyond its own input index + replacement growth
			r = Ite(And(em.cond, bvEq(em.at, i8(j))), em.b, r)
		}
		out.B = append(out.B, ctx.name(r, "rb"))
	}
	return out
}

func bsMapASCII(s *BStr, lower bool) *BStr {
	ctx := pickCtx(s)
	out := &BStr{ctx: ctx, Len: s.Len}
	for _, b := range s.B {
		var lo, hi, delta uint64
		if lower {
			lo, hi, delta = 'A', 'Z', 32
		} else {
			lo, hi, delta = 'a', 'z', 0xe0 // -32 mod 256
		}
		in := And(Cmp(">=", b, BV(8, lo), false), Cmp("<=", b, BV(8, hi), false))
		out.B = append(out.B, Ite(in, Arith("+", b, BV(8, delta), false), b))
	}
	return out
}

// bsLess: lexicographic byte order.
func bsLess(a, b *BStr) *Term {
	n := len(a.B)
	if len(b.B) > n {
		n = len(b.B)
	}
	// from the last position backwards: less_i = at position i onwards
	r := False // both exhausted: equal => not less
	for i := n - 1; i >= 0; i-- {
		aEnd := Cmp("<=", a.Len, idx64(i), false)
		bEnd := Cmp("<=", b.Len, idx64(i), false)
		var ab, bb *Term
		if i < len(a.B) {
			ab = a.B[i]
		} else {
			ab = BV(8, 0)
			aEnd = True
		}
		if i < len(b.B) {
			bb = b.B[i]
		} else {
			bb = BV(8, 0)
			bEnd = True
		}
		// a ended: less iff b not ended; b ended (a not): not less
		r = Ite(aEnd, Not(bEnd), Ite(bEnd, False, Ite(Cmp("<", ab, bb, false), True, Ite(Cmp(">", ab, bb, false), False, r))))
	}
	return pickCtx(a, b).name(r, "less")
}

// bsIndexByte: index of the first occurrence of byte c (BV64), or len if absent (found flag separate).
func bsIndexByte(s *BStr, c byte) (*Term, *Term) {
	idx := s.Len
	found := False
	for i := len(s.B) - 1; i >= 0; i-- {
		hit := And(Cmp("<", idx64(i), s.Len, false), bvEq(s.B[i], BV(8, uint64(c))))
		idx = Ite(hit, idx64(i), idx)
		found = Or(hit, found)
	}
	ctx := pickCtx(s)
	return ctx.name(idx, "idx"), ctx.name(found, "found")
}

// bsTrimByte: strip leading and trailing copies of c.
func bsTrimByte(s *BStr, c byte) *BStr {
	ctx := pickCtx(s)
	n := len(s.B)
	// lead = number of leading c within len
	lead := BV(64, 0)
	allSoFar := True
	for i := 0; i < n; i++ {
		isC := And(Cmp("<", idx64(i), s.Len, false), bvEq(s.B[i], BV(8, uint64(c))))
		allSoFar = And(allSoFar, isC)
		lead = Ite(allSoFar, idx64(i+1), lead)
	}
	lead = ctx.name(lead, "lead")
	// end = position after the last non-c byte (>= lead)
	end := lead
	for i := 0; i < n; i++ {
		nonC := And(Cmp("<", idx64(i), s.Len, false), Not(bvEq(s.B[i], BV(8, uint64(c)))))
		end = Ite(nonC, idx64(i+1), end)
	}
	end = ctx.name(end, "end")
	return bsSub(s, lead, end)
}

// bsTrimSet: strip leading and trailing bytes for which isCut holds.
func bsTrimSet(s *BStr, isCut func(b *Term) *Term) *BStr {
	ctx := pickCtx(s)
	n := len(s.B)
	lead := BV(64, 0)
	allSoFar := True
	for i := 0; i < n; i++ {
		c := And(Cmp("<", idx64(i), s.Len, false), isCut(s.B[i]))
		allSoFar = And(allSoFar, c)
		lead = Ite(allSoFar, idx64(i+1), lead)
	}
	lead = ctx.name(lead, "lead")
	end := lead
	for i := 0; i < n; i++ {
		nonC := And(Cmp("<", idx64(i), s.Len, false), Not(isCut(s.B[i])))
		end = Ite(nonC, idx64(i+1), end)
	}
	end = ctx.name(end, "end")
	return bsSub(s, lead, end)
}

// isASCIISpace: '\t' '\n' '\v' '\f' '\r' ' '
func isASCIISpace(b *Term) *Term {
	return Or(bvEq(b, BV(8, 0x20)), And(Cmp(">=", b, BV(8, 0x09), false), Cmp("<=", b, BV(8, 0x0d), false)))
}

// evalBStr reads the model value of a byte-vector string.
func (st *State) evalBStr(b *BStr) string {
	n := int(st.evalTerm(b.Len).(uint64))
	if n > len(b.B) {
		n = len(b.B)
	}
	buf := make([]byte, n)
	for i := 0; i < n; i++ {
		buf[i] = byte(st.evalTerm(b.B[i]).(uint64))
	}
	return string(buf)
}
