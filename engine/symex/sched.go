package symex

import (
	"fmt"
	"go/token"
	"go/types"
	"strings"

	"golang.org/x/tools/go/ssa"
)

// ---------- goroutines ----------

func (st *State) spawn(parent *G, fnv Val, args []Val, c *ssa.CallCommon, in ssa.Instruction) {
	st.accessSeq++
	ng := &G{ID: len(st.gs), Status: "runnable", Parent: parent.ID, SpawnSeq: st.accessSeq}
	var fn *ssa.Function
	var binds []Val
	if c.IsInvoke() {
		recv := args[0].(IfaceVal)
		if recv.Dyn == nil {
			st.check(False, "panic", "nil-deref", "go on nil interface method", instrPos(in))
		}
		fn = st.eng.Prog.LookupMethod(recv.Dyn, c.Method.Pkg(), c.Method.Name())
		if fn == nil {
			st.logf("go <external %s.%s>", typeStr(recv.Dyn), c.Method.Name())
			return
		}
		args[0] = recv.V
	} else {
		cv, ok := fnv.(ClosureVal)
		if !ok || cv.Fn == nil {
			st.fail("unsupported", fmt.Sprintf("go of %T", fnv))
		}
		fn = cv.Fn
		binds = cv.Binds
	}
	ng.Name = fn.String()
	if !st.eng.isInternal(fn) {
		st.logf("go <external %s>", fn)
		st.eng.unmod["go "+fn.String()] = true
		return
	}
	ng.Stack = []*Frame{st.newFrame(fn, args, binds)}
	if st.eng.Cfg.Sched == "manual" {
		ng.Status = "parked"
	}
	st.gs = append(st.gs, ng)
	st.logf("go %s -> g%d", shortFn(fn), ng.ID)
}

func shortFn(fn *ssa.Function) string {
	s := fn.String()
	if i := strings.LastIndex(s, "/"); i >= 0 {
		s = s[i+1:]
	}
	return s
}

// enabled reports whether a blocked goroutine could make progress now.
func (st *State) enabled(g *G) bool {
	if g.Status == "runnable" {
		return true
	}
	if g.Status != "blocked" || g.Wait == nil {
		return false
	}
	w := g.Wait
	switch w.kind {
	case "lock":
		return !w.loc.Mu.Locked && w.loc.Mu.Readers == 0
	case "rlock":
		return !w.loc.Mu.Locked
	case "once":
		return !w.loc.Once.Running
	case "recv":
		return st.recvReady(w.ch, g)
	case "send":
		return st.sendReady(w.ch, g)
	case "select":
		for _, sc := range w.sel {
			if sc.send && st.sendReady(sc.ch, g) {
				return true
			}
			st.inSelect = len(w.sel) > 1
			r := !sc.send && st.recvReady(sc.ch, g)
			st.inSelect = false
			if r {
				return true
			}
		}
		return false
	case "children":
		for _, id := range w.kids {
			k := st.gs[id]
			if k.Status == "runnable" || (k.Status == "blocked" && st.enabled(k)) {
				return false
			}
		}
		return true
	case "quiesce":
		for _, o := range st.gs {
			if o == g || o.Status == "done" || o.Status == "parked" {
				continue
			}
			if o.Status == "runnable" || st.enabled(o) {
				return false
			}
		}
		return true
	}
	return false
}

func (st *State) timerReady(c *ChanObj) bool {
	if !c.Timer || c.Fired {
		return false
	}
	if c.Ready {
		return true
	}
	if st.clock != nil && c.At != nil {
		// symbolic time: has the clock reached the timer's deadline? Decided by the solver (both outcomes are explored
		// when both are feasible), once per clock value; a timer that has expired stays expired
		if c.AtReady {
			return true
		}
		if c.AtVer == st.clockVer+1 {
			return c.AtReady
		}
		c.AtVer = st.clockVer + 1
		c.AtReady = st.branch(Cmp(">=", st.clock, c.At, true))
		return c.AtReady
	}
	if !st.timersOn {
		return false
	}
	if st.timerLimit > 0 {
		// short plain sleeps of the library (delayed close, notification delay) elapse; a timer that is one case of a
		// select next to other channels is a cancellable timeout (handshake timer): it fires only when the harness says so
		if st.inSelect {
			return false
		}
		return c.TimerD != nil && c.TimerD.Const && signed(64, c.TimerD.U) <= st.timerLimit
	}
	return true
}

func (st *State) recvReady(c *ChanObj, self *G) bool {
	if c == nil {
		return false
	}
	if c.Timer {
		return st.timerReady(c) || c.Periodic()
	}
	if len(c.Buf) > 0 || c.Closed {
		return true
	}
	// unbuffered: a blocked sender
	return st.findBlocked(c, true, self) != nil
}

func (c *ChanObj) Periodic() bool { return false }

func (st *State) sendReady(c *ChanObj, self *G) bool {
	if c == nil {
		return false
	}
	if c.Closed {
		return true // will panic
	}
	if len(c.Buf) < c.Cap {
		return true
	}
	return st.findBlocked(c, false, self) != nil
}

// findBlocked finds a goroutine blocked sending (wantSend) or receiving on c.
func (st *State) findBlocked(c *ChanObj, wantSend bool, self *G) *G {
	for _, o := range st.gs {
		if o == self || o.Status != "blocked" || o.Wait == nil {
			continue
		}
		w := o.Wait
		switch w.kind {
		case "send":
			if wantSend && w.ch == c {
				return o
			}
		case "recv":
			if !wantSend && w.ch == c {
				return o
			}
		case "select":
			for _, sc := range w.sel {
				if sc.ch == c && sc.send == wantSend {
					return o
				}
			}
		}
	}
	return nil
}

func (st *State) block(g *G, w *waitInfo) bool {
	g.Status = "blocked"
	g.Wait = w
	return false
}

// run is the scheduler loop.
//
// explore mode is delay-bounded: at every scheduling point (before a visible operation of the running
// goroutine, or when it blocks / ends) the enabled goroutines are ordered round-robin starting with the
// running one; taking the k-th costs k delays, and at most Cfg.Preempt delays are spent per path.
// With D delays every schedule that deviates at most D times from the deterministic round-robin
// schedule is explored; all data stays symbolic.
func (st *State) run() {
	explore := st.eng.Cfg.Sched == "explore"
	cur := 0
	st.cur = 0
	for {
		g := st.gs[cur]
		st.cur = cur
		if g.Status == "blocked" && st.enabled(g) {
			g.Status = "runnable"
			g.Wait = nil
		}
		if g.Status == "runnable" {
			if explore && st.atVisible(g) && !st.lastSwitch {
				alts := st.runnableOthers(g)
				left := st.eng.Cfg.Preempt - st.preempts
				if len(alts) > 0 && left > 0 {
					n := len(alts)
					if n > left {
						n = left
					}
					st.eng.Res.SchedPoints++
					k := st.choose(1+n, nil)
					if k > 0 {
						st.preempts += k
						cur = alts[k-1]
						st.lastSwitch = true
						st.logf("delay x%d: g%d -> g%d", k, g.ID, cur)
						continue
					}
				}
			}
			st.lastSwitch = false
			if st.stepG(g) {
				continue
			}
		}
		// current not runnable: next in round-robin order, deviations cost delays
		cands := st.runnableOthers(g)
		if len(cands) == 0 {
			st.finish()
			return
		}
		if explore && len(cands) > 1 {
			left := st.eng.Cfg.Preempt - st.preempts
			n := len(cands) - 1
			if n > left {
				n = left
			}
			k := 0
			if n > 0 {
				st.eng.Res.SchedPoints++
				k = st.choose(1+n, nil)
			}
			st.preempts += k
			cur = cands[k]
		} else {
			cur = cands[0]
		}
		st.lastSwitch = true
	}
}

func (st *State) runnableOthers(g *G) []int {
	var out []int
	n := len(st.gs)
	start := 0
	for i, o := range st.gs {
		if o == g {
			start = i
		}
	}
	for d := 1; d <= n; d++ {
		i := (start + d) % n
		o := st.gs[i]
		if o == g {
			continue
		}
		if o.Status == "runnable" || (o.Status == "blocked" && st.enabled(o)) {
			out = append(out, i)
		}
	}
	return out
}

// atVisible: is g's next instruction a synchronisation-relevant operation?
func (st *State) atVisible(g *G) bool {
	fr := g.Stack[len(g.Stack)-1]
	if fr.PC >= len(fr.Block.Instrs) {
		return false
	}
	switch x := fr.Block.Instrs[fr.PC].(type) {
	case *ssa.Send, *ssa.Select, *ssa.Go:
		return true
	case *ssa.UnOp:
		return x.Op == token.ARROW
	case *ssa.Call:
		if x.Call.IsInvoke() {
			return false
		}
		if f, ok := x.Call.Value.(*ssa.Function); ok {
			n := f.String()
			if strings.HasPrefix(n, "(*sync.") || strings.HasSuffix(n, "zzvrt.Yield") {
				return true
			}
		}
		if b, ok := x.Call.Value.(*ssa.Builtin); ok && b.Name() == "close" {
			return true
		}
	case *ssa.RunDefers:
		return len(fr.Defers) > 0
	}
	return false
}

// finish: no goroutine can run. Decide between normal end and deadlock.
func (st *State) finish() {
	st.reportRaces()
	var stuck []string
	for _, o := range st.gs {
		if o.Status == "blocked" {
			w := o.Wait
			// waiting for a disabled timer or in a daemon-like receive is not a deadlock by itself
			desc := fmt.Sprintf("g%d(%s) blocked on %s", o.ID, o.Name, w.kind)
			if w.instr != nil {
				desc += " at " + st.eng.pos(instrPos(w.instr))
			}
			stuck = append(stuck, desc)
		}
	}
	main := st.gs[0]
	if main.Status == "done" {
		if len(stuck) > 0 {
			st.logf("end: main done; still blocked: %s", strings.Join(stuck, "; "))
		}
		return
	}
	// main is blocked forever
	st.recordViolation("deadlock", "deadlock", "main goroutine blocked forever: "+strings.Join(stuck, "; "), token.NoPos, false)
	st.fail("deadlock", strings.Join(stuck, "; "))
}

// ---------- channels ----------

func (st *State) closeChan(ch ChanVal, pos token.Pos) {
	if ch.C == nil {
		st.check(False, "panic", "close-nil-chan", "close of nil channel", pos)
	}
	if ch.C.Closed {
		st.check(False, "panic", "close-closed-chan", "close of closed channel", pos)
	}
	ch.C.Closed = true
	st.logf("close chan#%d(%s)", ch.C.ID, ch.C.Label)
}

func (st *State) completeRecv(o *G, c *ChanObj, v Val, ok bool) {
	// complete the blocked receive of goroutine o with value v
	w := o.Wait
	fr := o.Stack[len(o.Stack)-1]
	switch in := w.instr.(type) {
	case *ssa.UnOp:
		if in.CommaOk {
			fr.Regs[in] = TupleVal{v, Bool(ok)}
		} else {
			fr.Regs[in] = v
		}
	case *ssa.Select:
		idx := -1
		for i, sc := range w.sel {
			if sc.ch == c && !sc.send {
				idx = i
				break
			}
		}
		fr.Regs[in] = st.selectResult(in, idx, v, ok)
	}
	fr.PC++
	o.Status = "runnable"
	o.Wait = nil
}

func (st *State) completeSend(o *G, c *ChanObj) Val {
	w := o.Wait
	fr := o.Stack[len(o.Stack)-1]
	var v Val
	switch in := w.instr.(type) {
	case *ssa.Send:
		v = st.get(fr, in.X)
	case *ssa.Select:
		idx := -1
		for i, sc := range w.sel {
			if sc.ch == c && sc.send {
				idx = i
				v = sc.val
				break
			}
		}
		fr.Regs[in] = st.selectResult(in, idx, nil, false)
	}
	fr.PC++
	o.Status = "runnable"
	o.Wait = nil
	return v
}

func (st *State) selectResult(in *ssa.Select, idx int, recvV Val, ok bool) Val {
	tup := in.Type().(*types.Tuple)
	res := make(TupleVal, tup.Len())
	res[0] = BV(64, uint64(int64(idx)))
	res[1] = Bool(ok)
	k := 2
	for i, s := range in.States {
		if s.Dir == types.RecvOnly {
			if i == idx && recvV != nil {
				res[k] = recvV
			} else {
				res[k] = st.zero(tup.At(k).Type())
			}
			k++
		}
	}
	return res
}

// tryRecv: attempt a receive on c for goroutine g. Returns (value, ok, done).
func (st *State) tryRecv(g *G, c *ChanObj, elemT types.Type) (Val, bool, bool) {
	if c == nil {
		return nil, false, false
	}
	if c.Timer {
		if st.timerReady(c) {
			c.Fired = true
			st.logf("g%d: timer %s fires", g.ID, c.Label)
			return st.zero(elemT), true, true
		}
		return nil, false, false
	}
	if len(c.Buf) > 0 {
		v := c.Buf[0]
		c.Buf = c.Buf[1:]
		// a blocked sender can now move its value into the buffer
		if o := st.findBlocked(c, true, g); o != nil {
			sv := st.completeSend(o, c)
			c.Buf = append(c.Buf, sv)
		}
		return v, true, true
	}
	if o := st.findBlocked(c, true, g); o != nil {
		v := st.completeSend(o, c)
		return v, true, true
	}
	if c.Closed {
		return st.zero(elemT), false, true
	}
	return nil, false, false
}

func (st *State) trySend(g *G, c *ChanObj, v Val, pos token.Pos) bool {
	if c == nil {
		return false
	}
	if c.Closed {
		st.recordViolation("panic", "send-on-closed-chan", "send on closed channel "+c.Label, pos, false)
		st.fail("panic", "send on closed channel")
	}
	if o := st.findBlocked(c, false, g); o != nil && len(c.Buf) == 0 {
		st.completeRecv(o, c, v, true)
		return true
	}
	if len(c.Buf) < c.Cap {
		c.Buf = append(c.Buf, v)
		return true
	}
	return false
}

func (st *State) execRecv(g *G, fr *Frame, x *ssa.UnOp) bool {
	ch := st.get(fr, x.X).(ChanVal)
	et := x.X.Type().Underlying().(*types.Chan).Elem()
	if ch.C == nil {
		return st.block(g, &waitInfo{kind: "recv", ch: nil, instr: x})
	}
	v, ok, done := st.tryRecv(g, ch.C, et)
	if !done {
		return st.block(g, &waitInfo{kind: "recv", ch: ch.C, instr: x})
	}
	if x.CommaOk {
		fr.Regs[x] = TupleVal{v, Bool(ok)}
	} else {
		fr.Regs[x] = v
	}
	fr.PC++
	return true
}

func (st *State) execSend(g *G, fr *Frame, x *ssa.Send) bool {
	ch := st.get(fr, x.Chan).(ChanVal)
	if ch.C == nil {
		return st.block(g, &waitInfo{kind: "send", ch: nil, instr: x})
	}
	if !st.trySend(g, ch.C, st.get(fr, x.X), instrPos(x)) {
		return st.block(g, &waitInfo{kind: "send", ch: ch.C, instr: x})
	}
	fr.PC++
	return true
}

func (st *State) execSelect(g *G, fr *Frame, x *ssa.Select) bool {
	var cases []selCase
	var ready []int
	for i, s := range x.States {
		ch := st.get(fr, s.Chan).(ChanVal)
		sc := selCase{ch: ch.C, send: s.Dir == types.SendOnly}
		if sc.send {
			sc.val = st.get(fr, s.Send)
		}
		cases = append(cases, sc)
		if sc.ch == nil {
			continue
		}
		if sc.send && st.sendReady(sc.ch, g) {
			ready = append(ready, i)
		}
		st.inSelect = len(x.States) > 1
		rr := !sc.send && st.recvReady(sc.ch, g)
		st.inSelect = false
		if rr {
			ready = append(ready, i)
		}
	}
	if len(ready) == 0 {
		if !x.Blocking {
			fr.Regs[x] = st.selectResult(x, -1, nil, false)
			fr.PC++
			return true
		}
		return st.block(g, &waitInfo{kind: "select", sel: cases, instr: x})
	}
	pick := ready[0]
	if len(ready) > 1 {
		pick = ready[st.choose(len(ready), nil)]
	}
	sc := cases[pick]
	if sc.send {
		if !st.trySend(g, sc.ch, sc.val, instrPos(x)) {
			st.fail("engine-error", "select send not ready")
		}
		fr.Regs[x] = st.selectResult(x, pick, nil, false)
	} else {
		et := x.States[pick].Chan.Type().Underlying().(*types.Chan).Elem()
		v, ok, done := st.tryRecv(g, sc.ch, et)
		if !done {
			st.fail("engine-error", "select recv not ready")
		}
		fr.Regs[x] = st.selectResult(x, pick, v, ok)
	}
	fr.PC++
	return true
}

// ---------- heap access log (locksets) ----------

func (st *State) heldIDs(g *G) []int {
	var locks []int
	for _, h := range g.Held {
		locks = append(locks, h.ID)
	}
	return locks
}

func safePos(st *State, in ssa.Instruction) string {
	if in == nil {
		return "?"
	}
	if c, ok := in.(*ssa.Call); ok && c == nil {
		return "?"
	}
	return st.eng.pos(instrPos(in))
}

func safeFn(in ssa.Instruction) string {
	if in == nil {
		return "?"
	}
	if c, ok := in.(*ssa.Call); ok && c == nil {
		return "?"
	}
	return in.Parent().String()
}

// orderedByGo: access a (in goroutine ga) happens before every access of goroutine gb
// if gb descends from ga and was spawned after a.
func (st *State) orderedByGo(a Access, gb int) bool {
	c := gb
	for c >= 0 && c < len(st.gs) {
		g := st.gs[c]
		if g.Parent == a.G && c != a.G {
			return a.Seq < g.SpawnSeq
		}
		if g.Parent == c || g.Parent < 0 {
			return false
		}
		c = g.Parent
	}
	return false
}

func (st *State) descendsFrom(g, anc int) bool {
	for c := g; c >= 0 && c < len(st.gs); {
		p := st.gs[c].Parent
		if p == anc {
			return true
		}
		if p < 0 || p == c {
			return false
		}
		c = p
	}
	return false
}

func (st *State) noteAccess(g *G, l *Loc, write bool, in ssa.Instruction) {
	if !st.logAccess || g == nil {
		return
	}
	pos := safePos(st, in)
	if strings.Contains(pos, "zz_verif") {
		return // harness code
	}
	st.accessSeq++
	st.accessLog = append(st.accessLog, Access{Loc: l, Write: write, Pos: pos, G: g.ID, Locks: st.heldIDs(g), Fn: safeFn(in), Name: l.Name, Seq: st.accessSeq})
}

func (st *State) noteMapAccess(g *G, m *MapObj, write bool, in ssa.Instruction) {
	if !st.logAccess || g == nil || m == nil {
		return
	}
	pos := safePos(st, in)
	if strings.Contains(pos, "zz_verif") {
		return
	}
	st.accessSeq++
	st.accessLog = append(st.accessLog, Access{Map: m, Write: write, Pos: pos, G: g.ID, Locks: st.heldIDs(g), Fn: safeFn(in), Name: fmt.Sprintf("map#%d", m.ID), Seq: st.accessSeq})
}

// reportRaces: lockset conflicts between accesses of different goroutines to the same location
// (at least one write, no common lock). Happens-before through `go` and channels is not modelled:
// these are candidates, to be confirmed by the race detector in the native replay.
func (st *State) reportRaces() {
	if !st.logAccess {
		return
	}
	type key struct {
		loc *Loc
		m   *MapObj
	}
	byLoc := map[key][]int{}
	var order []key
	for i, a := range st.accessLog {
		k := key{a.Loc, a.Map}
		if _, ok := byLoc[k]; !ok {
			order = append(order, k)
		}
		byLoc[k] = append(byLoc[k], i)
	}
	seen := map[string]bool{}
	for _, k := range order {
		idx := byLoc[k]
		// Eraser's exclusive phase for objects allocated during the run: accesses by the allocating goroutine
		// before any other goroutine touches the object are initialisation, published later under a lock
		// Eraser's exclusive phase for objects allocated during the run: the allocating goroutine's accesses before
		// the first access by an unrelated goroutine are initialisation (the object is published under a lock);
		// goroutines descending from the allocator are ordered by their spawn instead (orderedByGo below)
		firstForeign := -1
		if k.loc != nil && k.loc.Fresh {
			for _, i := range idx {
				a := st.accessLog[i]
				if a.G != k.loc.AllocG && !st.descendsFrom(a.G, k.loc.AllocG) {
					firstForeign = a.Seq
					break
				}
			}
		}
		for x := 0; x < len(idx); x++ {
			for y := x + 1; y < len(idx); y++ {
				a, b := st.accessLog[idx[x]], st.accessLog[idx[y]]
				if a.G == b.G || !(a.Write || b.Write) {
					continue
				}
				common := false
				for _, la := range a.Locks {
					for _, lb := range b.Locks {
						if la == lb {
							common = true
						}
					}
				}
				if common {
					continue
				}
				if st.orderedByGo(a, b.G) || st.orderedByGo(b, a.G) {
					continue
				}
				if k.loc != nil && k.loc.Fresh && firstForeign >= 0 {
					// allocator's initialisation vs. an unrelated goroutine
					if a.G == k.loc.AllocG && !st.descendsFrom(b.G, a.G) && a.Seq < firstForeign {
						continue
					}
					if b.G == k.loc.AllocG && !st.descendsFrom(a.G, b.G) && b.Seq < firstForeign {
						continue
					}
				}
				p1, p2 := a.Pos, b.Pos
				if p2 < p1 {
					p1, p2 = p2, p1
				}
				id := "race:" + p1 + "~" + p2
				if seen[id] {
					continue
				}
				seen[id] = true
				st.recordViolation("race", id, fmt.Sprintf("unsynchronised accesses to %s: %s (%s, write=%v) and %s (%s, write=%v)",
					a.Name, a.Pos, shortName(a.Fn), a.Write, b.Pos, shortName(b.Fn), b.Write), token.NoPos, false)
			}
		}
	}
}

func shortName(s string) string {
	if i := strings.LastIndex(s, "/"); i >= 0 {
		return s[i+1:]
	}
	return s
}
