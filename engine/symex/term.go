package symex

import (
	"fmt"
	"strconv"
	"strings"
)

type SortKind int

const (
	KBool SortKind = iota
	KBV
	KStr
)

type Sort struct {
	K SortKind
	W int
}

var (
	SBool = Sort{K: KBool}
	SStr  = Sort{K: KStr}
)

func SBV(w int) Sort { return Sort{K: KBV, W: w} }

func (s Sort) SMT() string {
	switch s.K {
	case KBool:
		return "Bool"
	case KStr:
		return "String"
	}
	return fmt.Sprintf("(_ BitVec %d)", s.W)
}

// Term is an SMT term with light constant folding.
type Term struct {
	S      string
	Sort   Sort
	Const  bool
	U      uint64 // BV value (masked to width) or bool 0/1
	Str    string // string constant
	I      string // optional Int-sorted text equal to the signed value of this BV
	Head   *Term  // for str.++ terms: constant first part
	Tail   *Term  // for str.++ terms: the rest after Head
	BS     *BStr  // byte-vector representation (bvstr mode); S is unused then
	BSName string
}

func anyBS(ts ...*Term) bool {
	for _, t := range ts {
		if t != nil && t.BS != nil && !t.Const {
			return true
		}
	}
	return false
}

func mask(w int) uint64 {
	if w >= 64 {
		return ^uint64(0)
	}
	return (uint64(1) << uint(w)) - 1
}

func signed(w int, u uint64) int64 {
	if w >= 64 {
		return int64(u)
	}
	if u&(uint64(1)<<uint(w-1)) != 0 {
		return int64(u | ^mask(w))
	}
	return int64(u)
}

func intLit(v int64) string {
	if v < 0 {
		return fmt.Sprintf("(- %d)", -v)
	}
	return strconv.FormatInt(v, 10)
}

func BV(w int, v uint64) *Term {
	v &= mask(w)
	var s string
	if w%4 == 0 {
		s = fmt.Sprintf("#x%0*x", w/4, v)
	} else {
		s = fmt.Sprintf("(_ bv%d %d)", v, w)
	}
	return &Term{S: s, Sort: SBV(w), Const: true, U: v, I: intLit(signed(w, v))}
}

func Bool(b bool) *Term {
	if b {
		return &Term{S: "true", Sort: SBool, Const: true, U: 1}
	}
	return &Term{S: "false", Sort: SBool, Const: true, U: 0}
}

// BVStrMode: symbolic strings are bounded byte vectors (set once per process before exploring).
var BVStrMode bool

var True = Bool(true)
var False = Bool(false)

func smtStr(s string) string {
	var sb strings.Builder
	sb.WriteByte('"')
	for i := 0; i < len(s); i++ {
		c := s[i]
		switch {
		case c == '"':
			sb.WriteString(`""`)
		case c == '\\' || c < 0x20 || c >= 0x7f:
			fmt.Fprintf(&sb, `\u{%x}`, c)
		default:
			sb.WriteByte(c)
		}
	}
	sb.WriteByte('"')
	return sb.String()
}

func Str(s string) *Term {
	return &Term{S: smtStr(s), Sort: SStr, Const: true, Str: s}
}

func Var(name string, s Sort) *Term { return &Term{S: name, Sort: s} }

func (t *Term) IsTrue() bool  { return t.Const && t.Sort.K == KBool && t.U == 1 }
func (t *Term) IsFalse() bool { return t.Const && t.Sort.K == KBool && t.U == 0 }

func Not(a *Term) *Term {
	if a.Const {
		return Bool(a.U == 0)
	}
	if strings.HasPrefix(a.S, "(not ") {
		return &Term{S: a.S[5 : len(a.S)-1], Sort: SBool}
	}
	return &Term{S: "(not " + a.S + ")", Sort: SBool}
}

func And(a, b *Term) *Term {
	if a.Const {
		if a.U == 0 {
			return False
		}
		return b
	}
	if b.Const {
		if b.U == 0 {
			return False
		}
		return a
	}
	return &Term{S: "(and " + a.S + " " + b.S + ")", Sort: SBool}
}

func Or(a, b *Term) *Term {
	if a.Const {
		if a.U == 1 {
			return True
		}
		return b
	}
	if b.Const {
		if b.U == 1 {
			return True
		}
		return a
	}
	return &Term{S: "(or " + a.S + " " + b.S + ")", Sort: SBool}
}

func Implies(a, b *Term) *Term { return Or(Not(a), b) }

func Ite(c, a, b *Term) *Term {
	if c.Const {
		if c.U == 1 {
			return a
		}
		return b
	}
	if a.S == b.S {
		return a
	}
	if a.Sort.K == KBool {
		return Or(And(c, a), And(Not(c), b))
	}
	if a.Sort.K == KStr && (BVStrMode || anyBS(a, b)) {
		x, y := bsOf(a), bsOf(b)
		out := &BStr{ctx: pickCtx(x, y), Len: Ite(c, x.Len, y.Len)}
		n := len(x.B)
		if len(y.B) > n {
			n = len(y.B)
		}
		for i := 0; i < n; i++ {
			xb, yb := BV(8, 0), BV(8, 0)
			if i < len(x.B) {
				xb = x.B[i]
			}
			if i < len(y.B) {
				yb = y.B[i]
			}
			out.B = append(out.B, Ite(c, xb, yb))
		}
		return bsTerm(out)
	}
	t := &Term{S: "(ite " + c.S + " " + a.S + " " + b.S + ")", Sort: a.Sort}
	if a.I != "" && b.I != "" {
		t.I = "(ite " + c.S + " " + a.I + " " + b.I + ")"
	}
	return t
}

func Eq(a, b *Term) *Term {
	if a.Sort != b.Sort {
		panic(fmt.Sprintf("Eq sort mismatch %v %v: %s %s", a.Sort, b.Sort, a.S, b.S))
	}
	if a.Const && b.Const {
		if a.Sort.K == KStr {
			return Bool(a.Str == b.Str)
		}
		return Bool(a.U == b.U)
	}
	if a.Sort.K == KStr && anyBS(a, b) {
		return bsEq(bsOf(a), bsOf(b))
	}
	if a.S == b.S {
		return True
	}
	if a.Sort.K == KBool {
		if a.Const {
			if a.U == 1 {
				return b
			}
			return Not(b)
		}
		if b.Const {
			if b.U == 1 {
				return a
			}
			return Not(a)
		}
	}
	if a.Sort.K == KBV && a.I != "" && b.I != "" {
		return &Term{S: "(= " + a.I + " " + b.I + ")", Sort: SBool}
	}
	return &Term{S: "(= " + a.S + " " + b.S + ")", Sort: SBool}
}

// fromInt builds a BV term from an Int-sorted text.
func fromInt(w int, i string) *Term {
	return &Term{S: fmt.Sprintf("((_ int2bv %d) %s)", w, i), Sort: SBV(w), I: i}
}

func bvBin(op string, a, b *Term) *Term {
	return &Term{S: "(" + op + " " + a.S + " " + b.S + ")", Sort: a.Sort}
}

func shiftAmt(w int, u uint64) uint64 {
	if u >= uint64(w) {
		return uint64(w)
	}
	return u
}

// Arith: op is a Go token string; signedness given.
func Arith(op string, a, b *Term, sgn bool) *Term {
	w := a.Sort.W
	if a.Const && b.Const {
		x, y := a.U, b.U
		switch op {
		case "+":
			return BV(w, x+y)
		case "-":
			return BV(w, x-y)
		case "*":
			return BV(w, x*y)
		case "&":
			return BV(w, x&y)
		case "|":
			return BV(w, x|y)
		case "^":
			return BV(w, x^y)
		case "&^":
			return BV(w, x&^y)
		case "/":
			if y != 0 {
				if sgn {
					return BV(w, uint64(signed(w, x)/signed(w, y)))
				}
				return BV(w, x/y)
			}
		case "%":
			if y != 0 {
				if sgn {
					return BV(w, uint64(signed(w, x)%signed(w, y)))
				}
				return BV(w, x%y)
			}
		case "<<":
			s := shiftAmt(w, y)
			if s >= uint64(w) {
				return BV(w, 0)
			}
			return BV(w, x<<s)
		case ">>":
			s := shiftAmt(w, y)
			if sgn {
				if s >= uint64(w) {
					s = uint64(w - 1)
				}
				return BV(w, uint64(signed(w, x)>>s))
			}
			if s >= uint64(w) {
				return BV(w, 0)
			}
			return BV(w, x>>s)
		}
	}
	switch op {
	case "+":
		if b.Const && b.U == 0 {
			return a
		}
		if a.Const && a.U == 0 {
			return b
		}
		t := bvBin("bvadd", a, b)
		if a.I != "" && b.I != "" {
			t.I = "(+ " + a.I + " " + b.I + ")"
		}
		return t
	case "-":
		if b.Const && b.U == 0 {
			return a
		}
		t := bvBin("bvsub", a, b)
		if a.I != "" && b.I != "" {
			t.I = "(- " + a.I + " " + b.I + ")"
		}
		return t
	case "*":
		if b.Const && b.U == 1 {
			return a
		}
		if a.Const && a.U == 1 {
			return b
		}
		return bvBin("bvmul", a, b)
	case "/":
		if sgn {
			return bvBin("bvsdiv", a, b)
		}
		return bvBin("bvudiv", a, b)
	case "%":
		if sgn {
			return bvBin("bvsrem", a, b)
		}
		return bvBin("bvurem", a, b)
	case "&":
		return bvBin("bvand", a, b)
	case "|":
		return bvBin("bvor", a, b)
	case "^":
		return bvBin("bvxor", a, b)
	case "&^":
		return bvBin("bvand", a, &Term{S: "(bvnot " + b.S + ")", Sort: b.Sort})
	case "<<":
		return bvBin("bvshl", a, b)
	case ">>":
		if sgn {
			return bvBin("bvashr", a, b)
		}
		return bvBin("bvlshr", a, b)
	}
	panic("Arith: unknown op " + op)
}

// Cmp: op in < <= > >=
func Cmp(op string, a, b *Term, sgn bool) *Term {
	w := a.Sort.W
	if a.Const && b.Const {
		var r bool
		if sgn {
			x, y := signed(w, a.U), signed(w, b.U)
			switch op {
			case "<":
				r = x < y
			case "<=":
				r = x <= y
			case ">":
				r = x > y
			case ">=":
				r = x >= y
			}
		} else {
			x, y := a.U, b.U
			switch op {
			case "<":
				r = x < y
			case "<=":
				r = x <= y
			case ">":
				r = x > y
			case ">=":
				r = x >= y
			}
		}
		return Bool(r)
	}
	if sgn && a.I != "" && b.I != "" {
		return &Term{S: "(" + op + " " + a.I + " " + b.I + ")", Sort: SBool}
	}
	var smt string
	switch op {
	case "<":
		smt = "bvult"
	case "<=":
		smt = "bvule"
	case ">":
		smt = "bvugt"
	case ">=":
		smt = "bvuge"
	}
	if sgn {
		smt = strings.Replace(smt, "bvu", "bvs", 1)
	}
	return &Term{S: "(" + smt + " " + a.S + " " + b.S + ")", Sort: SBool}
}

// Resize converts a BV to width w; fromSigned tells how to extend.
func Resize(a *Term, w int, fromSigned bool) *Term {
	aw := a.Sort.W
	if aw == w {
		return a
	}
	if a.Const {
		if w > aw && fromSigned {
			return BV(w, uint64(signed(aw, a.U)))
		}
		return BV(w, a.U)
	}
	if w < aw {
		t := &Term{S: fmt.Sprintf("((_ extract %d 0) %s)", w-1, a.S), Sort: SBV(w)}
		return t
	}
	if fromSigned {
		t := &Term{S: fmt.Sprintf("((_ sign_extend %d) %s)", w-aw, a.S), Sort: SBV(w)}
		t.I = a.I
		return t
	}
	t := &Term{S: fmt.Sprintf("((_ zero_extend %d) %s)", w-aw, a.S), Sort: SBV(w)}
	if a.I != "" {
		t.I = a.I // valid when a is known non-negative (lengths, byte codes)
	}
	return t
}

func Neg(a *Term) *Term {
	if a.Const {
		return BV(a.Sort.W, -a.U)
	}
	return &Term{S: "(bvneg " + a.S + ")", Sort: a.Sort}
}

func BVNot(a *Term) *Term {
	if a.Const {
		return BV(a.Sort.W, ^a.U)
	}
	return &Term{S: "(bvnot " + a.S + ")", Sort: a.Sort}
}

// ---- strings ----

func StrLen(s *Term) *Term {
	if s.Const {
		return BV(64, uint64(len(s.Str)))
	}
	if s.BS != nil {
		return s.BS.Len
	}
	if s.Head != nil {
		return Arith("+", BV(64, uint64(len(s.Head.Str))), StrLen(s.Tail), true)
	}
	return fromInt(64, "(str.len "+s.S+")")
}

func StrConcat(a, b *Term) *Term {
	if a.Const && b.Const {
		return Str(a.Str + b.Str)
	}
	if a.Const && a.Str == "" {
		return b
	}
	if b.Const && b.Str == "" {
		return a
	}
	if anyBS(a, b) {
		return bsTerm(bsConcat(bsOf(a), bsOf(b)))
	}
	t := &Term{S: "(str.++ " + a.S + " " + b.S + ")", Sort: SStr}
	if a.Const {
		t.Head, t.Tail = a, b
	} else if a.Head != nil {
		t.Head, t.Tail = a.Head, StrConcat(a.Tail, b)
	}
	return t
}

func intOf(t *Term) string {
	if t.I != "" {
		return t.I
	}
	return "(bv2nat " + t.S + ")"
}

// StrByte: byte at index (as BV8). Index must be in range (checked by caller).
func StrByte(s, idx *Term) *Term {
	if s.Const && idx.Const && idx.U < uint64(len(s.Str)) {
		return BV(8, uint64(s.Str[idx.U]))
	}
	if s.BS != nil {
		return bsByteAt(s.BS, idx)
	}
	if s.Head != nil && idx.Const && idx.U < uint64(len(s.Head.Str)) {
		return BV(8, uint64(s.Head.Str[idx.U]))
	}
	return fromInt(8, "(str.to_code (str.at "+s.S+" "+intOf(idx)+"))")
}

func StrSub(s, lo, hi *Term) *Term {
	if s.Const && lo.Const && hi.Const && lo.U <= hi.U && hi.U <= uint64(len(s.Str)) {
		return Str(s.Str[lo.U:hi.U])
	}
	if s.BS != nil {
		return bsTerm(bsSub(s.BS, lo, hi))
	}
	// s = Head ++ Tail, slice [len(Head) : len(s)] == Tail
	if s.Head != nil && lo.Const && lo.U == uint64(len(s.Head.Str)) && hi.S == StrLen(s).S {
		return s.Tail
	}
	n := "(- " + intOf(hi) + " " + intOf(lo) + ")"
	return &Term{S: "(str.substr " + s.S + " " + intOf(lo) + " " + n + ")", Sort: SStr}
}

func StrContains(s, sub *Term) *Term {
	if s.Const && sub.Const {
		return Bool(strings.Contains(s.Str, sub.Str))
	}
	if anyBS(s, sub) {
		return bsContains(bsOf(s), bsOf(sub))
	}
	return &Term{S: "(str.contains " + s.S + " " + sub.S + ")", Sort: SBool}
}

func StrPrefixOf(pre, s *Term) *Term {
	if s.Const && pre.Const {
		return Bool(strings.HasPrefix(s.Str, pre.Str))
	}
	if anyBS(s, pre) {
		return bsPrefix(bsOf(pre), bsOf(s))
	}
	return &Term{S: "(str.prefixof " + pre.S + " " + s.S + ")", Sort: SBool}
}

func StrSuffixOf(suf, s *Term) *Term {
	if s.Const && suf.Const {
		return Bool(strings.HasSuffix(s.Str, suf.Str))
	}
	if anyBS(s, suf) {
		return bsSuffix(bsOf(suf), bsOf(s))
	}
	return &Term{S: "(str.suffixof " + suf.S + " " + s.S + ")", Sort: SBool}
}

func StrReplaceAll(s, old, nw *Term) *Term {
	if s.Const && old.Const && nw.Const {
		return Str(strings.ReplaceAll(s.Str, old.Str, nw.Str))
	}
	if s.Const && old.Const && old.Str != "" {
		// constant text, constant pattern, symbolic replacement: splice
		parts := strings.Split(s.Str, old.Str)
		r := Str(parts[0])
		for _, p := range parts[1:] {
			r = StrConcat(StrConcat(r, nw), Str(p))
		}
		return r
	}
	if s.BS != nil {
		if !old.Const || !nw.Const {
			panic("bvstr ReplaceAll needs constant pattern and replacement")
		}
		return bsTerm(bsReplaceAll(s.BS, old.Str, nw.Str))
	}
	// Go: empty old inserts between runes; SMT-LIB: empty pattern leaves s unchanged.
	// Callers only use non-empty constant patterns (checked in extern.go).
	return &Term{S: "(str.replace_all " + s.S + " " + old.S + " " + nw.S + ")", Sort: SStr}
}

func StrLess(a, b *Term) *Term {
	if a.Const && b.Const {
		return Bool(a.Str < b.Str)
	}
	if anyBS(a, b) {
		return bsLess(bsOf(a), bsOf(b))
	}
	return &Term{S: "(str.< " + a.S + " " + b.S + ")", Sort: SBool}
}

func StrFromCode(b *Term) *Term {
	if b.Const {
		return Str(string([]byte{byte(b.U)}))
	}
	if BVStrMode {
		return bsTerm(&BStr{Len: BV(64, 1), B: []*Term{b}})
	}
	return &Term{S: "(str.from_code " + intOf(b) + ")", Sort: SStr}
}
