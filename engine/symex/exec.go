package symex

import (
	"fmt"
	"go/constant"
	"go/token"
	"go/types"
	"strings"

	"golang.org/x/tools/go/ssa"
)

func (st *State) newFrame(fn *ssa.Function, args []Val, binds []Val) *Frame {
	fr := &Frame{Fn: fn, Regs: map[ssa.Value]Val{}, Binds: binds, Loops: map[int]int{}}
	if len(fn.Blocks) == 0 {
		st.fail("engine-error", "newFrame: no body for "+fn.String())
	}
	fr.Block = fn.Blocks[0]
	for i, p := range fn.Params {
		if i < len(args) {
			fr.Regs[p] = args[i]
		} else {
			fr.Regs[p] = st.zero(p.Type())
		}
	}
	st.eng.funcs[fn.String()] = true
	if fn.Pos().IsValid() {
		st.eng.Res.Files[st.eng.Fset.Position(fn.Pos()).Filename] = true
	}
	return fr
}

func (st *State) runInits() {
	// run the package initialisers of module packages, in dependency order
	for _, fn := range st.eng.initFuncs {
		g := &G{ID: -1, Status: "runnable", Name: "init", Started: true}
		saved := st.gs
		st.gs = []*G{g}
		st.cur = 0
		g.Stack = []*Frame{st.newFrame(fn, nil, nil)}
		for g.Status != "done" {
			if !st.stepG(g) {
				st.fail("engine-error", "init blocked")
			}
		}
		st.gs = saved
	}
	st.cur = 0
}

// SetInitFuncs registers package init functions to run at the start of each path.
func (e *Engine) SetInitFuncs(fns []*ssa.Function) { e.initFuncs = fns }

func (st *State) global(g *ssa.Global) *Loc {
	if l, ok := st.globals[g]; ok {
		return l
	}
	pt := g.Type().(*types.Pointer)
	l := st.newLoc(pt.Elem(), g.String())
	st.globals[g] = l
	return l
}

func (st *State) constVal(c *ssa.Const) Val {
	t := c.Type()
	if c.Value == nil {
		return st.zero(t)
	}
	switch u := t.Underlying().(type) {
	case *types.Basic:
		switch {
		case u.Info()&types.IsBoolean != 0:
			return Bool(constant.BoolVal(c.Value))
		case u.Info()&types.IsString != 0:
			return Str(constant.StringVal(c.Value))
		case u.Info()&types.IsFloat != 0:
			f, _ := constant.Float64Val(c.Value)
			return FloatVal{f}
		case u.Info()&types.IsInteger != 0:
			w, sg := bvWidth(u)
			if sg {
				return BV(w, uint64(c.Int64()))
			}
			return BV(w, c.Uint64())
		}
	}
	st.fail("unsupported", "const of type "+typeStr(t))
	return nil
}

func (st *State) get(fr *Frame, v ssa.Value) Val {
	switch x := v.(type) {
	case *ssa.Const:
		return st.constVal(x)
	case *ssa.Global:
		return PtrVal{L: st.global(x), IsNil: False, T: x.Type()}
	case *ssa.Function:
		return ClosureVal{Fn: x}
	case *ssa.Builtin:
		return x
	case *ssa.FreeVar:
		for i, fv := range fr.Fn.FreeVars {
			if fv == x {
				return fr.Binds[i]
			}
		}
		st.fail("engine-error", "freevar not found")
	}
	if val, ok := fr.Regs[v]; ok {
		return val
	}
	st.fail("engine-error", fmt.Sprintf("value %s (%T) not set in %s", v.Name(), v, fr.Fn))
	return nil
}

func (st *State) curG() *G { return st.gs[st.cur] }

func instrPos(in ssa.Instruction) token.Pos {
	if p := in.Pos(); p.IsValid() {
		return p
	}
	// fall back to the enclosing function position
	return in.Parent().Pos()
}

// stepG executes one instruction of g. Returns false if g is blocked (no side effect).
func (st *State) stepG(g *G) bool {
	fr := g.Stack[len(g.Stack)-1]
	if fr.PC >= len(fr.Block.Instrs) {
		st.fail("engine-error", "pc beyond block")
	}
	in := fr.Block.Instrs[fr.PC]
	st.steps++
	if st.steps > st.eng.Cfg.MaxSteps {
		st.eng.Res.Incomplete = append(st.eng.Res.Incomplete, "step budget exhausted in "+fr.Fn.String())
		st.fail("unwind", "step budget")
	}
	return st.exec(g, fr, in)
}

func (st *State) jump(fr *Frame, to *ssa.BasicBlock) {
	if to.Index <= fr.Block.Index {
		// back edge (approximation: target index not greater)
		fr.Loops[to.Index]++
		if fr.Loops[to.Index] > st.eng.Res.MaxLoopSeen {
			st.eng.Res.MaxLoopSeen = fr.Loops[to.Index]
		}
		if fr.Loops[to.Index] > st.eng.Cfg.MaxLoop {
			st.eng.Res.Incomplete = append(st.eng.Res.Incomplete, fmt.Sprintf("unwinding assertion: loop bound %d exceeded in %s", st.eng.Cfg.MaxLoop, fr.Fn))
			st.fail("unwind", "loop bound in "+fr.Fn.String())
		}
	}
	fr.Prev = fr.Block
	fr.Block = to
	fr.PC = 0
}

func (st *State) exec(g *G, fr *Frame, in ssa.Instruction) bool {
	switch x := in.(type) {
	case *ssa.DebugRef:
	case *ssa.Alloc:
		t := x.Type().(*types.Pointer).Elem()
		l := st.newLoc(t, x.Comment)
		fr.Regs[x] = PtrVal{L: l, IsNil: False, T: x.Type()}
	case *ssa.Phi:
		// all phis of a block must be evaluated simultaneously
		vals := map[*ssa.Phi]Val{}
		i := fr.PC
		for ; i < len(fr.Block.Instrs); i++ {
			p, ok := fr.Block.Instrs[i].(*ssa.Phi)
			if !ok {
				break
			}
			for k, pred := range fr.Block.Preds {
				if pred == fr.Prev {
					vals[p] = st.get(fr, p.Edges[k])
					break
				}
			}
		}
		for p, v := range vals {
			fr.Regs[p] = v
		}
		fr.PC = i
		return true
	case *ssa.BinOp:
		fr.Regs[x] = st.binop(x.Op, st.get(fr, x.X), st.get(fr, x.Y), x.X.Type(), x)
	case *ssa.UnOp:
		if x.Op == token.ARROW {
			return st.execRecv(g, fr, x)
		}
		fr.Regs[x] = st.unop(fr, x)
	case *ssa.Store:
		p := st.get(fr, x.Addr).(PtrVal)
		l := st.deref(p, x)
		st.noteAccess(g, l, true, x)
		st.store(l, st.get(fr, x.Val))
	case *ssa.FieldAddr:
		p := st.get(fr, x.X).(PtrVal)
		l := st.deref(p, x)
		fr.Regs[x] = PtrVal{L: l.Elems[x.Field], IsNil: False, T: x.Type()}
	case *ssa.Field:
		sv := st.get(fr, x.X).(StructVal)
		fr.Regs[x] = sv.Fields[x.Field]
	case *ssa.IndexAddr:
		fr.Regs[x] = st.indexAddr(fr, x)
	case *ssa.Index:
		fr.Regs[x] = st.index(fr, x)
	case *ssa.Lookup:
		fr.Regs[x] = st.lookup(fr, x)
	case *ssa.MapUpdate:
		m := st.get(fr, x.Map).(MapVal)
		if m.M == nil {
			st.check(False, "panic", "nil-map-write", "assignment to entry in nil map", instrPos(x))
		}
		st.noteMapAccess(g, m.M, true, x)
		st.mapSet(m.M, st.get(fr, x.Key), st.get(fr, x.Value))
	case *ssa.MakeMap:
		mt := x.Type().Underlying().(*types.Map)
		st.idCounter++
		fr.Regs[x] = MapVal{M: &MapObj{KeyT: mt.Key(), ValT: mt.Elem(), ID: st.idCounter}}
	case *ssa.MakeChan:
		ct := x.Type().Underlying().(*types.Chan)
		sz := st.get(fr, x.Size).(*Term)
		n := int(st.concretize(sz, 4))
		st.idCounter++
		fr.Regs[x] = ChanVal{C: &ChanObj{Cap: n, ID: st.idCounter, ElemT: ct.Elem(), Label: st.eng.pos(x.Pos())}}
	case *ssa.MakeSlice:
		fr.Regs[x] = st.makeSlice(fr, x)
	case *ssa.MakeInterface:
		fr.Regs[x] = IfaceVal{Dyn: x.X.Type(), V: st.get(fr, x.X)}
	case *ssa.MakeClosure:
		fn := x.Fn.(*ssa.Function)
		binds := make([]Val, len(x.Bindings))
		for i, b := range x.Bindings {
			binds[i] = st.get(fr, b)
		}
		fr.Regs[x] = ClosureVal{Fn: fn, Binds: binds}
	case *ssa.ChangeType:
		fr.Regs[x] = st.changeType(st.get(fr, x.X), x.Type())
	case *ssa.ChangeInterface:
		fr.Regs[x] = st.get(fr, x.X)
	case *ssa.Convert:
		fr.Regs[x] = st.convert(st.get(fr, x.X), x.X.Type(), x.Type(), x)
	case *ssa.MultiConvert:
		fr.Regs[x] = st.convert(st.get(fr, x.X), x.X.Type(), x.Type(), x)
	case *ssa.SliceToArrayPointer:
		st.fail("unsupported", "SliceToArrayPointer")
	case *ssa.TypeAssert:
		fr.Regs[x] = st.typeAssert(fr, x)
	case *ssa.Extract:
		fr.Regs[x] = st.get(fr, x.Tuple).(TupleVal)[x.Index]
	case *ssa.Slice:
		fr.Regs[x] = st.sliceOp(fr, x)
	case *ssa.Range:
		fr.Regs[x] = st.rangeInit(fr, x)
	case *ssa.Next:
		fr.Regs[x] = st.rangeNext(fr, x)
	case *ssa.If:
		c := st.get(fr, x.Cond).(*Term)
		if st.branch(c) {
			st.jump(fr, fr.Block.Succs[0])
		} else {
			st.jump(fr, fr.Block.Succs[1])
		}
		return true
	case *ssa.Jump:
		st.jump(fr, fr.Block.Succs[0])
		return true
	case *ssa.Return:
		var ret Val
		switch len(x.Results) {
		case 0:
		case 1:
			ret = st.get(fr, x.Results[0])
		default:
			tv := make(TupleVal, len(x.Results))
			for i, r := range x.Results {
				tv[i] = st.get(fr, r)
			}
			ret = tv
		}
		st.doReturn(g, fr, ret)
		return true
	case *ssa.RunDefers:
		if len(fr.Defers) > 0 {
			d := fr.Defers[len(fr.Defers)-1]
			fr.Defers = fr.Defers[:len(fr.Defers)-1]
			// run the deferred call; RunDefers is re-executed afterwards
			return st.invokeVal(g, fr, nil, d.fn, d.args, d.call, true)
		}
	case *ssa.Defer:
		fnv, args := st.prepareCall(fr, &x.Call)
		fr.Defers = append(fr.Defers, deferred{fn: fnv, args: args, call: &x.Call})
	case *ssa.Go:
		fnv, args := st.prepareCall(fr, &x.Call)
		st.spawn(g, fnv, args, &x.Call, x)
	case *ssa.Call:
		fnv, args := st.prepareCall(fr, &x.Call)
		return st.invokeVal(g, fr, x, fnv, args, &x.Call, false)
	case *ssa.Send:
		return st.execSend(g, fr, x)
	case *ssa.Select:
		return st.execSelect(g, fr, x)
	case *ssa.Panic:
		v := st.get(fr, x.X)
		st.recordViolation("panic", "explicit-panic", fmt.Sprintf("panic(%v)", describe(v)), instrPos(x), false)
		st.fail("panic", "explicit panic")
	default:
		st.fail("unsupported", fmt.Sprintf("instruction %T in %s", in, fr.Fn))
	}
	fr.PC++
	return true
}

func describe(v Val) string {
	switch x := v.(type) {
	case *Term:
		return x.S
	case IfaceVal:
		if x.Dyn == nil {
			return "nil"
		}
		return typeStr(x.Dyn) + ":" + describe(x.V)
	case BuiltinErr:
		return "error(" + x.Msg.S + ")"
	case PtrVal:
		if x.L != nil {
			return "&" + x.L.Name
		}
		return "nilptr"
	}
	return fmt.Sprintf("%T", v)
}

func (st *State) doReturn(g *G, fr *Frame, ret Val) {
	g.Stack = g.Stack[:len(g.Stack)-1]
	if fr.OnReturn != nil {
		fr.OnReturn(ret)
	}
	if len(g.Stack) == 0 {
		g.Status = "done"
		return
	}
	caller := g.Stack[len(g.Stack)-1]
	if fr.IsDefer {
		// RunDefers will be re-executed
		return
	}
	if fr.ResultTo != nil {
		caller.Regs[fr.ResultTo] = ret
	}
	caller.PC++
}

// deref checks the nil flag and returns the location.
func (st *State) deref(p PtrVal, in ssa.Instruction) *Loc {
	if p.IsNil == nil {
		p.IsNil = Bool(p.L == nil)
	}
	st.check(Not(p.IsNil), "panic", "nil-deref", "nil pointer dereference", instrPos(in))
	if p.L == nil {
		st.fail("panic", "nil dereference (no target)")
	}
	return p.L
}

func (st *State) unop(fr *Frame, x *ssa.UnOp) Val {
	v := st.get(fr, x.X)
	switch x.Op {
	case token.MUL:
		p := v.(PtrVal)
		l := st.deref(p, x)
		st.noteAccess(st.curG(), l, false, x)
		return st.load(l)
	case token.NOT:
		return Not(v.(*Term))
	case token.SUB:
		if f, ok := v.(FloatVal); ok {
			return FloatVal{-f.F}
		}
		return Neg(v.(*Term))
	case token.XOR:
		return BVNot(v.(*Term))
	}
	st.fail("unsupported", "unop "+x.Op.String())
	return nil
}

func (st *State) eqVal(a, b Val) *Term {
	switch x := a.(type) {
	case *Term:
		y, ok := b.(*Term)
		if !ok {
			st.fail("engine-error", fmt.Sprintf("eqVal Term vs %T", b))
		}
		if x.Sort != y.Sort {
			st.fail("engine-error", fmt.Sprintf("eqVal sort mismatch %s %s", x.S, y.S))
		}
		return Eq(x, y)
	case PtrVal:
		y := b.(PtrVal)
		xn, yn := x.IsNil, y.IsNil
		if xn == nil {
			xn = Bool(x.L == nil)
		}
		if yn == nil {
			yn = Bool(y.L == nil)
		}
		same := Bool(x.L == y.L && x.L != nil)
		if x.L == nil && y.L == nil && x.Opq != nil {
			same = Bool(x.Opq == y.Opq)
		}
		return Or(And(xn, yn), And(And(Not(xn), Not(yn)), same))
	case IfaceVal:
		y, ok := b.(IfaceVal)
		if !ok {
			st.fail("engine-error", fmt.Sprintf("eqVal iface vs %T", b))
		}
		if x.Dyn == nil || y.Dyn == nil {
			return Bool(x.Dyn == nil && y.Dyn == nil)
		}
		if !types.Identical(x.Dyn, y.Dyn) {
			return False
		}
		return st.eqVal(x.V, y.V)
	case BuiltinErr:
		y := b.(BuiltinErr)
		return Bool(x.ID == y.ID)
	case StructVal:
		y := b.(StructVal)
		r := True
		for i := range x.Fields {
			r = And(r, st.eqVal(x.Fields[i], y.Fields[i]))
		}
		return r
	case ArrayVal:
		y := b.(ArrayVal)
		r := True
		for i := range x.Elems {
			r = And(r, st.eqVal(x.Elems[i], y.Elems[i]))
		}
		return r
	case SliceVal:
		// only comparison with nil is legal
		if y, ok := b.(SliceVal); ok {
			if y.Arr == nil && y.IsNil.IsTrue() {
				return x.IsNil
			}
			if x.Arr == nil && x.IsNil.IsTrue() {
				return y.IsNil
			}
		}
		if y, ok := b.(BytesVal); ok && x.IsNil.IsTrue() {
			return y.IsNil
		}
	case BytesVal:
		if y, ok := b.(SliceVal); ok && y.IsNil.IsTrue() && y.Arr == nil {
			return x.IsNil
		}
		if y, ok := b.(BytesVal); ok && y.IsNil.IsTrue() {
			return x.IsNil
		}
	case MapVal:
		y := b.(MapVal)
		if y.M == nil {
			return Bool(x.M == nil)
		}
		if x.M == nil {
			return Bool(y.M == nil)
		}
	case ChanVal:
		y := b.(ChanVal)
		return Bool(x.C == y.C)
	case ClosureVal:
		y := b.(ClosureVal)
		if y.IsNil {
			return Bool(x.IsNil)
		}
		if x.IsNil {
			return Bool(y.IsNil)
		}
	case OpaqueVal:
		y, ok := b.(OpaqueVal)
		if ok {
			return Bool(x.ID == y.ID)
		}
	case FloatVal:
		y := b.(FloatVal)
		return Bool(x.F == y.F)
	}
	st.fail("unsupported", fmt.Sprintf("eqVal %T vs %T", a, b))
	return nil
}

func (st *State) binop(op token.Token, a, b Val, t types.Type, in ssa.Instruction) Val {
	switch op {
	case token.EQL:
		return st.eqVal(a, b)
	case token.NEQ:
		return Not(st.eqVal(a, b))
	}
	if fa, ok := a.(FloatVal); ok {
		fb := b.(FloatVal)
		switch op {
		case token.ADD:
			return FloatVal{fa.F + fb.F}
		case token.SUB:
			return FloatVal{fa.F - fb.F}
		case token.MUL:
			return FloatVal{fa.F * fb.F}
		case token.QUO:
			return FloatVal{fa.F / fb.F}
		case token.LSS:
			return Bool(fa.F < fb.F)
		case token.LEQ:
			return Bool(fa.F <= fb.F)
		case token.GTR:
			return Bool(fa.F > fb.F)
		case token.GEQ:
			return Bool(fa.F >= fb.F)
		}
	}
	x, ok1 := a.(*Term)
	y, ok2 := b.(*Term)
	if !ok1 || !ok2 {
		st.fail("unsupported", fmt.Sprintf("binop %s on %T,%T", op, a, b))
	}
	if x.Sort.K == KStr {
		switch op {
		case token.ADD:
			return StrConcat(x, y)
		case token.LSS:
			return StrLess(x, y)
		case token.GTR:
			return StrLess(y, x)
		case token.LEQ:
			return Not(StrLess(y, x))
		case token.GEQ:
			return Not(StrLess(x, y))
		}
	}
	if x.Sort.K == KBool {
		switch op {
		case token.AND, token.LAND:
			return And(x, y)
		case token.OR, token.LOR:
			return Or(x, y)
		}
	}
	sg := isSigned(t)
	switch op {
	case token.ADD, token.SUB, token.MUL, token.AND, token.OR, token.XOR, token.AND_NOT:
		return Arith(op.String(), x, y, sg)
	case token.QUO, token.REM:
		st.check(Not(Eq(y, BV(y.Sort.W, 0))), "panic", "div-zero", "integer divide by zero", instrPos(in))
		return Arith(op.String(), x, y, sg)
	case token.SHL, token.SHR:
		// shift count may have a different width
		yy := Resize(y, x.Sort.W, false)
		if y.Sort.W > x.Sort.W && !y.Const {
			// saturate
			big := Cmp(">=", y, BV(y.Sort.W, uint64(x.Sort.W)), false)
			yy = Ite(big, BV(x.Sort.W, uint64(x.Sort.W)), yy)
		}
		return Arith(op.String(), x, yy, sg)
	case token.LSS, token.LEQ, token.GTR, token.GEQ:
		return Cmp(op.String(), x, y, sg)
	}
	st.fail("unsupported", "binop "+op.String())
	return nil
}

func (st *State) changeType(v Val, to types.Type) Val {
	switch x := v.(type) {
	case StructVal:
		x.T = to
		return x
	case ArrayVal:
		x.T = to
		return x
	case PtrVal:
		x.T = to
		return x
	}
	return v
}

func (st *State) convert(v Val, from, to types.Type, in ssa.Instruction) Val {
	fu, tu := from.Underlying(), to.Underlying()
	fb, fok := fu.(*types.Basic)
	tb, tok := tu.(*types.Basic)
	if fok && tok {
		switch {
		case fb.Info()&types.IsInteger != 0 && tb.Info()&types.IsInteger != 0:
			w, _ := bvWidth(tb)
			_, fs := bvWidth(fb)
			return Resize(v.(*Term), w, fs)
		case fb.Info()&types.IsInteger != 0 && tb.Info()&types.IsFloat != 0:
			t := v.(*Term)
			if t.Const {
				_, fs := bvWidth(fb)
				if fs {
					return FloatVal{float64(signed(t.Sort.W, t.U))}
				}
				return FloatVal{float64(t.U)}
			}
			st.fail("unsupported", "symbolic int->float")
		case fb.Info()&types.IsFloat != 0 && tb.Info()&types.IsInteger != 0:
			f := v.(FloatVal)
			w, sg := bvWidth(tb)
			if sg {
				return BV(w, uint64(int64(f.F)))
			}
			return BV(w, uint64(f.F))
		case fb.Info()&types.IsFloat != 0 && tb.Info()&types.IsFloat != 0:
			return v
		case fb.Info()&types.IsString != 0 && tb.Info()&types.IsString != 0:
			return v
		case fb.Info()&types.IsInteger != 0 && tb.Info()&types.IsString != 0:
			// string(rune/byte)
			t := v.(*Term)
			if t.Const {
				return Str(string(rune(t.U)))
			}
			return st.freshVar("runestr", SStr)
		}
	}
	// string <-> []byte
	if fok && fb.Info()&types.IsString != 0 && isByteSlice(to) {
		return BytesVal{S: v.(*Term), IsNil: False}
	}
	if tok && tb.Info()&types.IsString != 0 && isByteSlice(from) {
		return st.bytesToStr(v)
	}
	if isByteSlice(from) && isByteSlice(to) {
		return v
	}
	if _, ok := fu.(*types.Pointer); ok {
		return v // unsafe.Pointer conversions etc.
	}
	if _, ok := fu.(*types.Slice); ok {
		return v
	}
	st.fail("unsupported", fmt.Sprintf("convert %s -> %s", typeStr(from), typeStr(to)))
	return nil
}

// bytesToStr converts a []byte value to a String term.
func (st *State) bytesToStr(v Val) *Term {
	switch x := v.(type) {
	case BytesVal:
		return x.S
	case SliceVal:
		if x.Arr == nil {
			return Str("")
		}
		n := int(st.concretize(x.Len, 64))
		r := Str("")
		for i := 0; i < n; i++ {
			b := st.load(x.Arr.Elems[x.Off+i]).(*Term)
			r = StrConcat(r, StrFromCode(b))
		}
		return r
	}
	st.fail("engine-error", fmt.Sprintf("bytesToStr %T", v))
	return nil
}

func (st *State) typeAssert(fr *Frame, x *ssa.TypeAssert) Val {
	iv := st.get(fr, x.X).(IfaceVal)
	ok := false
	var res Val
	if iv.Dyn != nil {
		if types.IsInterface(x.AssertedType) {
			it := x.AssertedType.Underlying().(*types.Interface)
			if iv.Dyn == st.eng.errType {
				ok = it.NumMethods() == 0 || (it.NumMethods() == 1 && it.Method(0).Name() == "Error")
			} else {
				ok = types.Implements(iv.Dyn, it)
			}
			res = iv
		} else {
			ok = types.Identical(iv.Dyn, x.AssertedType)
			res = iv.V
		}
	}
	if x.CommaOk {
		if !ok {
			if types.IsInterface(x.AssertedType) {
				res = IfaceVal{}
			} else {
				res = st.zero(x.AssertedType)
			}
		}
		return TupleVal{res, Bool(ok)}
	}
	if !ok {
		st.check(False, "panic", "type-assert", "interface conversion failed: "+typeStr(iv.Dyn)+" is not "+typeStr(x.AssertedType), instrPos(x))
	}
	return res
}

// ---------- slices / arrays / strings ----------

func (st *State) makeSlice(fr *Frame, x *ssa.MakeSlice) Val {
	et := x.Type().Underlying().(*types.Slice).Elem()
	ln := st.get(fr, x.Len).(*Term)
	cp := st.get(fr, x.Cap).(*Term)
	st.check(Cmp(">=", ln, BV(64, 0), true), "panic", "makeslice-neg", "makeslice: len out of range", instrPos(x))
	c := int(st.concretize(cp, 8))
	if c > 4096 {
		st.fail("unsupported", "huge slice")
	}
	arr := st.newLoc(types.NewArray(et, int64(c)), "makeslice@"+st.eng.pos(x.Pos()))
	return SliceVal{Arr: arr, Off: 0, Len: ln, Cap: c, IsNil: False, ElemT: et}
}

func (st *State) boundsCheck(idx, ln *Term, in ssa.Instruction) {
	ok := And(Cmp(">=", idx, BV(64, 0), true), Cmp("<", idx, ln, true))
	st.check(ok, "panic", "index-out-of-range", "index out of range", instrPos(in))
}

func to64(t *Term, sg bool) *Term { return Resize(t, 64, sg) }

func (st *State) indexAddr(fr *Frame, x *ssa.IndexAddr) Val {
	base := st.get(fr, x.X)
	idx := to64(st.get(fr, x.Index).(*Term), isSigned(x.Index.Type()))
	switch b := base.(type) {
	case PtrVal: // pointer to array
		l := st.deref(b, x)
		st.boundsCheck(idx, BV(64, uint64(len(l.Elems))), x)
		i := int(st.concretize(idx, 64))
		return PtrVal{L: l.Elems[i], IsNil: False, T: x.Type()}
	case SliceVal:
		st.boundsCheck(idx, b.Len, x)
		i := int(st.concretize(idx, 64))
		if b.Arr == nil || b.Off+i >= len(b.Arr.Elems) {
			st.fail("engine-error", "indexAddr beyond backing array")
		}
		return PtrVal{L: b.Arr.Elems[b.Off+i], IsNil: False, T: x.Type()}
	case BytesVal:
		// address of a byte in an immutable symbolic string: materialise a temp cell (read-only use)
		st.boundsCheck(idx, StrLen(b.S), x)
		l := st.newLoc(types.Typ[types.Uint8], "bytecell")
		l.V = StrByte(b.S, idx)
		return PtrVal{L: l, IsNil: False, T: x.Type()}
	}
	st.fail("unsupported", fmt.Sprintf("IndexAddr on %T", base))
	return nil
}

func (st *State) index(fr *Frame, x *ssa.Index) Val {
	base := st.get(fr, x.X)
	idx := to64(st.get(fr, x.Index).(*Term), isSigned(x.Index.Type()))
	switch b := base.(type) {
	case *Term: // string
		st.boundsCheck(idx, StrLen(b), x)
		return StrByte(b, idx)
	case ArrayVal:
		st.boundsCheck(idx, BV(64, uint64(len(b.Elems))), x)
		i := int(st.concretize(idx, 64))
		return b.Elems[i]
	}
	st.fail("unsupported", fmt.Sprintf("Index on %T", base))
	return nil
}

func (st *State) sliceOp(fr *Frame, x *ssa.Slice) Val {
	base := st.get(fr, x.X)
	var lo, hi *Term
	if x.Low != nil {
		lo = to64(st.get(fr, x.Low).(*Term), true)
	} else {
		lo = BV(64, 0)
	}
	if x.High != nil {
		hi = to64(st.get(fr, x.High).(*Term), true)
	}
	switch b := base.(type) {
	case *Term: // string
		ln := StrLen(b)
		if hi == nil {
			hi = ln
		}
		st.check(And(And(Cmp(">=", lo, BV(64, 0), true), Cmp("<=", lo, hi, true)), Cmp("<=", hi, ln, true)),
			"panic", "slice-bounds", "slice bounds out of range", instrPos(x))
		return StrSub(b, lo, hi)
	case BytesVal:
		ln := StrLen(b.S)
		if hi == nil {
			hi = ln
		}
		st.check(And(And(Cmp(">=", lo, BV(64, 0), true), Cmp("<=", lo, hi, true)), Cmp("<=", hi, ln, true)),
			"panic", "slice-bounds", "slice bounds out of range", instrPos(x))
		return BytesVal{S: StrSub(b.S, lo, hi), IsNil: b.IsNil, Prov: b.Prov}
	case SliceVal:
		if hi == nil {
			hi = b.Len
		}
		capT := BV(64, uint64(b.Cap))
		st.check(And(And(Cmp(">=", lo, BV(64, 0), true), Cmp("<=", lo, hi, true)), Cmp("<=", hi, capT, true)),
			"panic", "slice-bounds", "slice bounds out of range", instrPos(x))
		l := int(st.concretize(lo, 64))
		nl := Arith("-", hi, BV(64, uint64(l)), true)
		return SliceVal{Arr: b.Arr, Off: b.Off + l, Len: nl, Cap: b.Cap - l, IsNil: b.IsNil, ElemT: b.ElemT}
	case PtrVal: // pointer to array
		l := st.deref(b, x)
		n := len(l.Elems)
		if hi == nil {
			hi = BV(64, uint64(n))
		}
		st.check(And(And(Cmp(">=", lo, BV(64, 0), true), Cmp("<=", lo, hi, true)), Cmp("<=", hi, BV(64, uint64(n)), true)),
			"panic", "slice-bounds", "slice bounds out of range", instrPos(x))
		lc := int(st.concretize(lo, 64))
		et := l.T.Underlying().(*types.Array).Elem()
		return SliceVal{Arr: l, Off: lc, Len: Arith("-", hi, BV(64, uint64(lc)), true), Cap: n - lc, IsNil: False, ElemT: et}
	}
	st.fail("unsupported", fmt.Sprintf("Slice on %T", base))
	return nil
}

// sliceLen / elements helpers
func (st *State) lenOf(v Val) *Term {
	switch x := v.(type) {
	case *Term:
		return StrLen(x)
	case SliceVal:
		return x.Len
	case BytesVal:
		return StrLen(x.S)
	case MapVal:
		if x.M == nil {
			return BV(64, 0)
		}
		// distinctness of symbolic keys is maintained by mapSet
		return BV(64, uint64(len(x.M.Keys)))
	case ChanVal:
		if x.C == nil {
			return BV(64, 0)
		}
		return BV(64, uint64(len(x.C.Buf)))
	case ArrayVal:
		return BV(64, uint64(len(x.Elems)))
	case PtrVal:
		if x.L != nil {
			return BV(64, uint64(len(x.L.Elems)))
		}
	}
	st.fail("unsupported", fmt.Sprintf("len of %T", v))
	return nil
}

// sliceElems returns the concrete element list (concretising the length).
func (st *State) sliceElems(v Val) []Val {
	switch x := v.(type) {
	case SliceVal:
		if x.Arr == nil {
			return nil
		}
		n := int(st.concretize(x.Len, 64))
		out := make([]Val, n)
		for i := 0; i < n; i++ {
			out[i] = st.load(x.Arr.Elems[x.Off+i])
		}
		return out
	case BytesVal:
		n := int(st.concretize(StrLen(x.S), 64))
		out := make([]Val, n)
		for i := 0; i < n; i++ {
			out[i] = StrByte(x.S, BV(64, uint64(i)))
		}
		return out
	}
	st.fail("engine-error", fmt.Sprintf("sliceElems %T", v))
	return nil
}

func (st *State) mkSlice(et types.Type, elems []Val, extraCap int) SliceVal {
	n := len(elems) + extraCap
	arr := st.newLoc(types.NewArray(et, int64(n)), "slice")
	for i, e := range elems {
		st.store(arr.Elems[i], e)
	}
	return SliceVal{Arr: arr, Off: 0, Len: BV(64, uint64(len(elems))), Cap: n, IsNil: False, ElemT: et}
}

func (st *State) appendOp(a, b Val, t types.Type) Val {
	// byte-string fast path
	if isByteSlice(t) {
		_, aB := a.(BytesVal)
		_, bB := b.(BytesVal)
		_, bS := b.(*Term)
		if aB || bB || bS {
			as := st.bytesAsStr(a)
			var bs *Term
			var prov []Prov
			if bS {
				bs = b.(*Term)
			} else {
				bs = st.bytesAsStr(b)
			}
			if av, ok := a.(BytesVal); ok {
				prov = append(prov, av.Prov...)
			}
			if bv, ok := b.(BytesVal); ok {
				prov = append(prov, bv.Prov...)
			}
			return BytesVal{S: StrConcat(as, bs), IsNil: False, Prov: prov}
		}
	}
	as := a.(SliceVal)
	var add []Val
	switch bb := b.(type) {
	case SliceVal:
		if bb.Arr == nil && bb.IsNil.IsTrue() {
			return a
		}
		add = st.sliceElems(bb)
	case *Term: // append([]byte, string...)
		add = st.sliceElems(BytesVal{S: bb, IsNil: False})
	default:
		st.fail("unsupported", fmt.Sprintf("append %T", b))
	}
	if len(add) == 0 {
		return a
	}
	n := 0
	if as.Arr != nil {
		n = int(st.concretize(as.Len, 64))
	}
	if as.Arr != nil && n+len(add) <= as.Cap {
		for i, e := range add {
			st.store(as.Arr.Elems[as.Off+n+i], e)
		}
		as.Len = BV(64, uint64(n+len(add)))
		as.IsNil = False
		return as
	}
	var elems []Val
	for i := 0; i < n; i++ {
		elems = append(elems, st.load(as.Arr.Elems[as.Off+i]))
	}
	elems = append(elems, add...)
	et := t.Underlying().(*types.Slice).Elem()
	return st.mkSlice(et, elems, len(elems)) // amortised growth: cap = 2*len
}

func (st *State) bytesAsStr(v Val) *Term {
	switch x := v.(type) {
	case BytesVal:
		return x.S
	case SliceVal:
		return st.bytesToStr(x)
	case *Term:
		return x
	}
	st.fail("engine-error", fmt.Sprintf("bytesAsStr %T", v))
	return nil
}

// ---------- maps ----------

func (st *State) mapFind(m *MapObj, key Val) int {
	// forks on equality with each existing key (in order)
	for i, k := range m.Keys {
		if st.branch(st.eqVal(k, key)) {
			return i
		}
	}
	return -1
}

func (st *State) mapSet(m *MapObj, key, val Val) {
	i := st.mapFind(m, key)
	if i >= 0 {
		m.Vals[i] = val
		return
	}
	m.Keys = append(m.Keys, key)
	m.Vals = append(m.Vals, val)
}

func (st *State) mapDelete(m *MapObj, key Val) {
	if m == nil {
		return
	}
	i := st.mapFind(m, key)
	if i >= 0 {
		m.Keys = append(append([]Val{}, m.Keys[:i]...), m.Keys[i+1:]...)
		m.Vals = append(append([]Val{}, m.Vals[:i]...), m.Vals[i+1:]...)
	}
}

func (st *State) lookup(fr *Frame, x *ssa.Lookup) Val {
	base := st.get(fr, x.X)
	if s, ok := base.(*Term); ok { // string index
		idx := to64(st.get(fr, x.Index).(*Term), isSigned(x.Index.Type()))
		st.boundsCheck(idx, StrLen(s), x)
		return StrByte(s, idx)
	}
	m := base.(MapVal)
	st.noteMapAccess(st.curG(), m.M, false, x)
	key := st.get(fr, x.Index)
	vt := x.X.Type().Underlying().(*types.Map).Elem()
	i := -1
	if m.M != nil {
		i = st.mapFind(m.M, key)
	}
	var v Val
	if i >= 0 {
		v = m.M.Vals[i]
	} else {
		v = st.zero(vt)
	}
	if x.CommaOk {
		return TupleVal{v, Bool(i >= 0)}
	}
	return v
}

func (st *State) rangeInit(fr *Frame, x *ssa.Range) Val {
	v := st.get(fr, x.X)
	switch b := v.(type) {
	case MapVal:
		st.noteMapAccess(st.curG(), b.M, false, x)
		it := &IterVal{}
		if b.M != nil {
			it.M = b.M
			it.Keys = append([]Val{}, b.M.Keys...)
			it.Vals = append([]Val{}, b.M.Vals...)
		}
		return it
	case *Term:
		return &IterVal{Str: b}
	}
	st.fail("unsupported", fmt.Sprintf("range over %T", v))
	return nil
}

func (st *State) rangeNext(fr *Frame, x *ssa.Next) Val {
	it := st.get(fr, x.Iter).(*IterVal)
	if x.IsString {
		// iterate bytes as runes (ASCII assumption recorded by harness)
		n := int(st.concretize(StrLen(it.Str), 64))
		if it.Pos >= n {
			return TupleVal{False, BV(64, 0), BV(32, 0)}
		}
		i := it.Pos
		it.Pos++
		return TupleVal{True, BV(64, uint64(i)), Resize(StrByte(it.Str, BV(64, uint64(i))), 32, false)}
	}
	tup := x.Type().(*types.Tuple)
	for it.Pos < len(it.Keys) {
		i := it.Pos
		it.Pos++
		// skip entries deleted meanwhile
		still := false
		for _, k := range it.M.Keys {
			if sameVal(k, it.Keys[i]) {
				still = true
				break
			}
		}
		if !still {
			continue
		}
		return TupleVal{True, it.Keys[i], it.Vals[i]}
	}
	return TupleVal{False, st.zero(tup.At(1).Type()), st.zero(tup.At(2).Type())}
}

func sameVal(a, b Val) bool {
	ta, ok1 := a.(*Term)
	tb, ok2 := b.(*Term)
	if ok1 && ok2 {
		return ta.S == tb.S
	}
	return false
}

// ---------- calls ----------

func (st *State) prepareCall(fr *Frame, c *ssa.CallCommon) (Val, []Val) {
	args := make([]Val, 0, len(c.Args)+1)
	if c.IsInvoke() {
		recv := st.get(fr, c.Value)
		args = append(args, recv)
		for _, a := range c.Args {
			args = append(args, st.get(fr, a))
		}
		return nil, args
	}
	fnv := st.get(fr, c.Value)
	for _, a := range c.Args {
		args = append(args, st.get(fr, a))
	}
	return fnv, args
}

// invokeVal performs a call. res is the instruction receiving the result (nil for defer/go).
// Returns false if the calling goroutine blocks (call must be retried).
func (st *State) invokeVal(g *G, fr *Frame, res *ssa.Call, fnv Val, args []Val, c *ssa.CallCommon, isDefer bool) bool {
	var fn *ssa.Function
	var binds []Val
	if c.IsInvoke() {
		recv := args[0].(IfaceVal)
		if recv.Dyn == nil {
			st.check(False, "panic", "nil-deref", "method call on nil interface "+c.Method.Name(), instrPos2(res, fr))
		}
		if recv.Dyn == st.eng.errType {
			// builtin error
			if c.Method.Name() == "Error" {
				return st.finishCall(g, fr, res, recv.V.(BuiltinErr).Msg, isDefer)
			}
		}
		fn = st.eng.Prog.LookupMethod(recv.Dyn, c.Method.Pkg(), c.Method.Name())
		if fn == nil {
			// external dynamic type: havoc
			name := "(" + typeStr(recv.Dyn) + ")." + c.Method.Name()
			ret, blocked := st.callExtern(g, fr, name, nil, args, c.Signature(), res)
			if blocked {
				return false
			}
			return st.finishCall(g, fr, res, ret, isDefer)
		}
		args[0] = recv.V
	} else {
		switch f := fnv.(type) {
		case ClosureVal:
			if f.IsNil || f.Fn == nil {
				st.check(False, "panic", "nil-deref", "call of nil func", instrPos2(res, fr))
			}
			fn = f.Fn
			binds = f.Binds
		case *ssa.Builtin:
			ret := st.callBuiltin(fr, f, args, c, res)
			return st.finishCall(g, fr, res, ret, isDefer)
		default:
			st.fail("engine-error", fmt.Sprintf("call of %T in %s at %s", fnv, fr.Fn, st.eng.pos(instrPos2(res, fr))))
		}
	}
	name := fn.String()
	if o := fn.Origin(); o != nil {
		name = o.String()
	}
	ckind, cut := st.eng.Cfg.Cuts[name]
	if cut && st.eng.isInternal(fn) && allConstArgs(args) && (ckind == "uf" || ckind == "ufshrink" || ckind == "ufidem") {
		cut = false // constant inputs: run the real body, constant folding is exact
	}
	if cut && strings.HasPrefix(ckind, "call:") {
		// redirect to a harness function with the same arguments (receiver first)
		target := st.eng.lookupFunc(ckind[5:])
		if target == nil {
			st.fail("engine-error", "cut target not found: "+ckind)
		}
		st.eng.stubs["cut:"+name+" -> "+ckind[5:]] = true
		if fr.Fn == target {
			cut = false // the replacement itself may call the original
		} else {
			fn = target
			binds = nil
			cut = false
			name = target.String()
		}
	}
	if cut || !st.eng.isInternal(fn) || isIntrinsic(name) {
		ret, blocked := st.callExtern(g, fr, name, fn, args, fn.Signature, res)
		if blocked {
			return false
		}
		if _, isCont := ret.(contCall); isCont {
			// extern pushed a frame (e.g. Once.Do); the call completes when that frame returns
			return true
		}
		return st.finishCall(g, fr, res, ret, isDefer)
	}
	if len(g.Stack) >= st.eng.Cfg.MaxDepth {
		st.recordViolation("unwind", "call-depth", fmt.Sprintf("call depth %d exceeded at %s (unbounded recursion?)", st.eng.Cfg.MaxDepth, fn), instrPos2(res, fr), false)
		st.eng.Res.Incomplete = append(st.eng.Res.Incomplete, fmt.Sprintf("unwinding assertion: call depth %d exceeded at %s", st.eng.Cfg.MaxDepth, fn))
		st.fail("unwind", "call depth at "+fn.String())
	}
	if len(g.Stack)+1 > st.eng.Res.MaxDepthSeen {
		st.eng.Res.MaxDepthSeen = len(g.Stack) + 1
	}
	nf := st.newFrame(fn, args, binds)
	nf.IsDefer = isDefer
	if res != nil {
		nf.ResultTo = res
	}
	g.Stack = append(g.Stack, nf)
	return true
}

type contCall struct{}

func instrPos2(res *ssa.Call, fr *Frame) token.Pos {
	if res != nil {
		return instrPos(res)
	}
	if fr.PC < len(fr.Block.Instrs) {
		return instrPos(fr.Block.Instrs[fr.PC])
	}
	return fr.Fn.Pos()
}

func (st *State) finishCall(g *G, fr *Frame, res *ssa.Call, ret Val, isDefer bool) bool {
	if isDefer {
		return true // RunDefers re-executed
	}
	if res != nil {
		fr.Regs[res] = ret
	}
	fr.PC++
	return true
}

func (st *State) callBuiltin(fr *Frame, b *ssa.Builtin, args []Val, c *ssa.CallCommon, res *ssa.Call) Val {
	switch b.Name() {
	case "len":
		if mv, ok := args[0].(MapVal); ok && res != nil {
			st.noteMapAccess(st.curG(), mv.M, false, res)
		}
		return st.lenOf(args[0])
	case "cap":
		switch x := args[0].(type) {
		case SliceVal:
			return BV(64, uint64(x.Cap))
		case BytesVal:
			return StrLen(x.S)
		case ChanVal:
			if x.C == nil {
				return BV(64, 0)
			}
			return BV(64, uint64(x.C.Cap))
		}
	case "append":
		return st.appendOp(args[0], args[1], c.Args[0].Type())
	case "copy":
		dst := args[0].(SliceVal)
		src := st.sliceElems(toSliceLike(args[1]))
		n := int(st.concretize(dst.Len, 64))
		k := 0
		for ; k < n && k < len(src); k++ {
			st.store(dst.Arr.Elems[dst.Off+k], src[k])
		}
		return BV(64, uint64(k))
	case "delete":
		m := args[0].(MapVal)
		st.noteMapAccess(st.curG(), m.M, true, res)
		st.mapDelete(m.M, args[1])
		return nil
	case "close":
		ch := args[0].(ChanVal)
		st.closeChan(ch, instrPos2(res, fr))
		return nil
	case "print", "println":
		return nil
	case "min", "max":
		x, y := args[0].(*Term), args[1].(*Term)
		sg := isSigned(c.Args[0].Type())
		lt := Cmp("<", x, y, sg)
		if b.Name() == "min" {
			return Ite(lt, x, y)
		}
		return Ite(lt, y, x)
	case "ssa:wrapnilchk":
		p := args[0].(PtrVal)
		if p.IsNil == nil {
			p.IsNil = Bool(p.L == nil)
		}
		st.check(Not(p.IsNil), "panic", "nil-deref", "value method called via nil pointer", instrPos2(res, fr))
		return args[0]
	case "recover":
		return IfaceVal{}
	}
	st.fail("unsupported", "builtin "+b.Name())
	return nil
}

func toSliceLike(v Val) Val {
	if t, ok := v.(*Term); ok {
		return BytesVal{S: t, IsNil: False}
	}
	return v
}

func isIntrinsic(name string) bool {
	return strings.Contains(name, "/zzvrt.")
}

func allConstArgs(args []Val) bool {
	for _, a := range args {
		switch x := a.(type) {
		case *Term:
			if !x.Const {
				return false
			}
		case BytesVal:
			if !x.S.Const {
				return false
			}
		case SliceVal:
			if x.Arr == nil && x.IsNil.IsTrue() {
				continue
			}
			if !x.Len.Const || x.Arr == nil {
				return false
			}
			for i := 0; i < int(x.Len.U); i++ {
				t, ok := x.Arr.Elems[x.Off+i].V.(*Term)
				if !ok || !t.Const {
					return false
				}
			}
		default:
			return false
		}
	}
	return true
}

// lookupFunc finds a package-level function by its full name "pkgpath.Name".
func (e *Engine) lookupFunc(full string) *ssa.Function {
	i := strings.LastIndex(full, ".")
	if i < 0 {
		return nil
	}
	for _, p := range e.Prog.AllPackages() {
		if p.Pkg.Path() == full[:i] {
			return p.Func(full[i+1:])
		}
	}
	return nil
}
