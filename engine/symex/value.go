package symex

import (
	"fmt"
	"go/types"

	"golang.org/x/tools/go/ssa"
)

// Val is a runtime value of the symbolic interpreter.
type Val interface{}

// Scalars are *Term. Other kinds:

// Loc is an addressable memory location (a tree for aggregates).
type Loc struct {
	T     types.Type
	V     Val    // leaf value (scalar, pointer, slice, iface, map, chan, closure ...)
	Elems []*Loc // struct fields or array elements
	Name  string // debug / identity label
	ID    int
	// side state for sync primitives living at this location
	Mu   *MutexState
	Once *OnceState
	// allocation info for the lockset analysis (objects created while the access log is on)
	AllocG int
	Fresh  bool
}

type MutexState struct {
	Locked  bool
	Owner   int // goroutine id
	Readers int
}

type OnceState struct {
	Done    bool
	Running bool
	Owner   int
}

// PtrVal: pointer to a location, with a symbolic nil flag.
type PtrVal struct {
	L     *Loc
	IsNil *Term       // Bool
	T     types.Type  // pointer type (may be nil for untyped nil)
	Opq   interface{} // opaque payload for pointers to external objects
}

type SliceVal struct {
	Arr   *Loc // array location (Elems are the cells); nil for nil slice
	Off   int
	Len   *Term // BV64
	Cap   int
	IsNil *Term
	ElemT types.Type
}

// BytesVal is an immutable symbolic byte string ([]byte backed by an SMT String).
type BytesVal struct {
	S     *Term
	IsNil *Term
	Prov  []Prov
}

// Prov records where (part of) a byte string came from.
type Prov struct {
	Kind string // "marshal", "eebus"
	T    types.Type
	V    Val
}

type StructVal struct {
	T      types.Type
	Fields []Val
}

type ArrayVal struct {
	T     types.Type
	Elems []Val
}

type IfaceVal struct {
	Dyn types.Type // nil => nil interface
	V   Val
}

type TupleVal []Val

type ClosureVal struct {
	Fn    *ssa.Function
	Binds []Val
	IsNil bool
}

type BuiltinErr struct {
	Msg *Term // String
	ID  int
}

type MapObj struct {
	KeyT, ValT types.Type
	Keys       []Val
	Vals       []Val
	ID         int
}

type MapVal struct {
	M *MapObj // nil => nil map
}

type ChanObj struct {
	Cap     int
	Buf     []Val
	Closed  bool
	ID      int
	ElemT   types.Type
	Timer   bool // created by time.After / ticker
	TimerD  *Term
	Fired   bool
	Ready   bool  // one-shot readiness granted by FireTimers
	At      *Term // symbolic clock mode: the instant at which the timer expires (clock at creation + duration)
	AtVer   int   // clock version for which AtReady was decided (+1; 0 = never)
	AtReady bool
	Label   string
	Waiters int
}

type ChanVal struct {
	C *ChanObj // nil => nil channel
}

type FloatVal struct{ F float64 }

// OpaqueVal: value of an external type we do not model (token with identity).
type OpaqueVal struct {
	T    types.Type
	ID   int
	Name string
}

// RangeIter state for range over map / string
type IterVal struct {
	M    *MapObj
	Keys []Val
	Vals []Val
	Pos  int
	Str  *Term
}

func isNilPtr(p PtrVal) bool { return p.IsNil != nil && p.IsNil.IsTrue() }

func (st *State) newLoc(t types.Type, name string) *Loc {
	st.locCounter++
	l := &Loc{T: t, Name: name, ID: st.locCounter}
	if st.logAccess && st.cur < len(st.gs) {
		l.Fresh = true
		l.AllocG = st.gs[st.cur].ID
	}
	switch u := t.Underlying().(type) {
	case *types.Struct:
		l.Elems = make([]*Loc, u.NumFields())
		for i := 0; i < u.NumFields(); i++ {
			l.Elems[i] = st.newLoc(u.Field(i).Type(), name+"."+u.Field(i).Name())
		}
	case *types.Array:
		n := int(u.Len())
		l.Elems = make([]*Loc, n)
		for i := 0; i < n; i++ {
			l.Elems[i] = st.newLoc(u.Elem(), fmt.Sprintf("%s[%d]", name, i))
		}
	default:
		l.V = st.zero(t)
	}
	return l
}

func bvWidth(b *types.Basic) (int, bool) {
	switch b.Kind() {
	case types.Int8:
		return 8, true
	case types.Uint8:
		return 8, false
	case types.Int16:
		return 16, true
	case types.Uint16:
		return 16, false
	case types.Int32:
		return 32, true
	case types.Uint32:
		return 32, false
	case types.Int, types.Int64, types.UntypedInt, types.UntypedRune:
		return 64, true
	case types.Uint, types.Uint64, types.Uintptr:
		return 64, false
	}
	return 0, false
}

func isSigned(t types.Type) bool {
	if b, ok := t.Underlying().(*types.Basic); ok {
		_, s := bvWidth(b)
		return s
	}
	return false
}

func isByteSlice(t types.Type) bool {
	if s, ok := t.Underlying().(*types.Slice); ok {
		if b, ok := s.Elem().Underlying().(*types.Basic); ok {
			return b.Kind() == types.Uint8
		}
	}
	return false
}

func (st *State) zero(t types.Type) Val {
	switch u := t.Underlying().(type) {
	case *types.Basic:
		switch {
		case u.Info()&types.IsBoolean != 0:
			return False
		case u.Info()&types.IsString != 0:
			return Str("")
		case u.Info()&types.IsFloat != 0:
			return FloatVal{0}
		case u.Kind() == types.UnsafePointer:
			return PtrVal{IsNil: True, T: t}
		case u.Kind() == types.UntypedNil:
			return PtrVal{IsNil: True}
		default:
			w, _ := bvWidth(u)
			if w == 0 {
				return OpaqueVal{T: t}
			}
			return BV(w, 0)
		}
	case *types.Pointer:
		return PtrVal{IsNil: True, T: t}
	case *types.Slice:
		return SliceVal{IsNil: True, Len: BV(64, 0), ElemT: u.Elem()}
	case *types.Struct:
		sv := StructVal{T: t, Fields: make([]Val, u.NumFields())}
		for i := range sv.Fields {
			sv.Fields[i] = st.zero(u.Field(i).Type())
		}
		return sv
	case *types.Array:
		av := ArrayVal{T: t, Elems: make([]Val, int(u.Len()))}
		for i := range av.Elems {
			av.Elems[i] = st.zero(u.Elem())
		}
		return av
	case *types.Interface:
		return IfaceVal{}
	case *types.Map:
		return MapVal{}
	case *types.Chan:
		return ChanVal{}
	case *types.Signature:
		return ClosureVal{IsNil: true}
	case *types.Tuple:
		tv := make(TupleVal, u.Len())
		for i := range tv {
			tv[i] = st.zero(u.At(i).Type())
		}
		return tv
	}
	return OpaqueVal{T: t}
}

// load reads the (deep) value stored at l.
func (st *State) load(l *Loc) Val {
	switch u := l.T.Underlying().(type) {
	case *types.Struct:
		sv := StructVal{T: l.T, Fields: make([]Val, len(l.Elems))}
		for i, e := range l.Elems {
			sv.Fields[i] = st.load(e)
		}
		_ = u
		return sv
	case *types.Array:
		av := ArrayVal{T: l.T, Elems: make([]Val, len(l.Elems))}
		for i, e := range l.Elems {
			av.Elems[i] = st.load(e)
		}
		return av
	}
	return l.V
}

func (st *State) store(l *Loc, v Val) {
	switch l.T.Underlying().(type) {
	case *types.Struct:
		sv, ok := v.(StructVal)
		if !ok {
			panic(fmt.Sprintf("store: struct loc %s gets %T", l.Name, v))
		}
		for i, e := range l.Elems {
			st.store(e, sv.Fields[i])
		}
		return
	case *types.Array:
		av, ok := v.(ArrayVal)
		if !ok {
			panic(fmt.Sprintf("store: array loc %s gets %T", l.Name, v))
		}
		for i, e := range l.Elems {
			st.store(e, av.Elems[i])
		}
		return
	}
	l.V = v
}

func typeStr(t types.Type) string {
	if t == nil {
		return "<nil>"
	}
	return types.TypeString(t, nil)
}
