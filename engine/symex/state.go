package symex

import (
	"fmt"
	"go/token"
	"go/types"
	"sort"
	"strings"
	"sync"
	"time"

	"golang.org/x/tools/go/ssa"

	"verif/engine/smt"
)

type Config struct {
	MaxDepth   int    // call depth bound (unwinding assertion)
	MaxLoop    int    // per-frame back-edge bound (unwinding assertion)
	MaxSteps   int    // instruction budget per path
	MaxPaths   int    // path budget (exceeding => incomplete)
	Sched      string // "seq" | "manual" | "explore"
	Preempt    int    // preemption bound in explore mode
	Cuts       map[string]string
	ModulePath string
	Verbose    bool
	Params     map[string]int
	BVStr      bool // strings as bounded byte vectors (capacity MaxStrLen)
	StrBytes   bool // constrain fresh strings to chars < 256
	MaxStrLen  int  // if >0, every fresh string has length <= MaxStrLen
	Deadline   time.Time
}

type Violation struct {
	ID       string            `json:"id"`
	Kind     string            `json:"kind"` // assert | panic | deadlock | unwind
	Msg      string            `json:"msg"`
	Pos      string            `json:"pos"`
	Model    map[string]string `json:"model"`
	Trace    []string          `json:"trace"`
	Path     []int             `json:"path"`
	Stack    []string          `json:"stack"`
	Draws    []Draw            `json:"draws"`
	Unknown  bool              `json:"unknown,omitempty"` // solver could not decide
	JSON     []JSONDoc         `json:"json_docs,omitempty"`
	Contains []ContainsVal     `json:"contains,omitempty"`
	Func     string            `json:"func"` // innermost module function on the stack
}

// Draw is one zzvrt draw along the path, in program order, with its model value.
type Draw struct {
	Name  string `json:"name"`
	Kind  string `json:"kind"`
	Term  string `json:"term"`
	Value string `json:"value"`
	T     *Term  `json:"-"`
}

type PathSummary struct {
	Decisions int      `json:"decisions"`
	End       string   `json:"end"`
	Trace     []string `json:"trace,omitempty"`
}

type Result struct {
	Entry         string          `json:"entry"`
	Paths         int             `json:"paths"`
	PathEnds      map[string]int  `json:"path_ends"`
	Violations    []Violation     `json:"violations"`
	Covers        map[string]int  `json:"covers"`
	Facts         map[string]int  `json:"facts"`
	Functions     []string        `json:"functions_encoded"`
	Unmodelled    []string        `json:"unmodelled_calls"`
	Stubs         []string        `json:"stubs_used"`
	Queries       smt.Stats       `json:"queries"`
	SolverTimeS   float64         `json:"solver_time_s"`
	WallS         float64         `json:"wall_s"`
	Incomplete    []string        `json:"incomplete"`
	UnknownBranch int             `json:"unknown_branches"`
	Steps         int             `json:"steps"`
	Samples       []PathSummary   `json:"samples"`
	MaxDepthSeen  int             `json:"max_call_depth_seen"`
	MaxLoopSeen   int             `json:"max_loop_iter_seen"`
	SchedPoints   int             `json:"sched_points"`
	Files         map[string]bool `json:"-"`
}

type Engine struct {
	Prog   *ssa.Program
	Fset   *token.FileSet
	Solver *smt.Solver
	Cfg    Config
	Res    *Result

	pool      *Pool
	funcs     map[string]bool
	unmod     map[string]bool
	stubs     map[string]bool
	errType   types.Type
	violSeen  map[string]int
	initFuncs []*ssa.Function
}

type pathEnd struct {
	kind string
	msg  string
}

type Frame struct {
	Fn        *ssa.Function
	Block     *ssa.BasicBlock
	Prev      *ssa.BasicBlock
	PC        int
	Regs      map[ssa.Value]Val
	Binds     []Val
	Defers    []deferred
	ResultTo  ssa.Value // call instruction in the caller to receive the result (nil: discard)
	Loops     map[int]int
	IsDefer   bool
	OnReturn  func(ret Val) // engine continuation (used by Once.Do etc.)
	Panicking bool
}

type deferred struct {
	fn   Val
	args []Val
	call *ssa.CallCommon
}

type waitInfo struct {
	kind  string // lock | rlock | once | recv | send | select | quiesce | children | sleep
	loc   *Loc
	ch    *ChanObj
	instr ssa.Instruction
	sel   []selCase
	kids  []int
}

type selCase struct {
	ch   *ChanObj
	send bool
	val  Val
}

type G struct {
	ID       int
	Stack    []*Frame
	Status   string // runnable | blocked | parked | done
	Wait     *waitInfo
	Name     string
	Held     []*Loc
	Started  bool
	Parent   int
	SpawnSeq int
}

type namedVar struct {
	Name string
	Sort Sort
}

type State struct {
	eng         *Engine
	sol         *smt.Solver
	gs          []*G
	cur         int
	pcond       []*Term
	dec         []int
	pos         int
	taken       []int
	locCounter  int
	idCounter   int
	varCounter  map[string]int
	decls       []namedVar
	draws       []Draw
	trace       []string
	globals     map[*ssa.Global]*Loc
	steps       int
	preempts    int
	timersOn    bool
	clock       *Term // symbolic clock (nil: timers are driven by SetTimers / FireTimers*)
	clockVer    int
	inSelect    bool  // readiness is being evaluated for a case of a multi-case select
	timerLimit  int64 // with timers on: only time.After channels with a constant duration <= timerLimit fire by themselves (0 = no limit)
	prov        map[string][]Prov
	ufArg       map[string]string
	jsonCache   map[string]Val
	ufCache     map[string]Val
	lastSwitch  bool
	unknown     int
	endKind     string
	accessLog   []Access
	accessSeq   int
	logAccess   bool
	jsonCalls   []jsonCall
	containsObs []containsObs
}

// Access is a recorded heap access (for lockset analysis).
type Access struct {
	Seq   int
	Map   *MapObj
	Name  string
	Loc   *Loc
	Write bool
	Pos   string
	G     int
	Locks []int
	Fn    string
}

func NewEngine(prog *ssa.Program, solver *smt.Solver, cfg Config) *Engine {
	if cfg.MaxDepth == 0 {
		cfg.MaxDepth = 40
	}
	if cfg.MaxLoop == 0 {
		cfg.MaxLoop = 8
	}
	if cfg.MaxSteps == 0 {
		cfg.MaxSteps = 200000
	}
	if cfg.MaxPaths == 0 {
		cfg.MaxPaths = 200000
	}
	if cfg.Sched == "" {
		cfg.Sched = "seq"
	}
	e := &Engine{Prog: prog, Fset: prog.Fset, Solver: solver, Cfg: cfg,
		funcs: map[string]bool{}, unmod: map[string]bool{}, stubs: map[string]bool{}, violSeen: map[string]int{}}
	// builtin error dynamic type
	tn := types.NewTypeName(token.NoPos, nil, "verifBuiltinError", nil)
	e.errType = types.NewNamed(tn, types.NewStruct(nil, nil), nil)
	return e
}

func (e *Engine) isInternal(fn *ssa.Function) bool {
	if fn == nil {
		return false
	}
	if len(fn.Blocks) == 0 {
		return false
	}
	p := fn.Pkg
	if p == nil {
		// synthetic / instantiation: decide by origin or by the package of the receiver / parent
		if o := fn.Origin(); o != nil && o.Pkg != nil {
			p = o.Pkg
		} else if fn.Parent() != nil {
			return e.isInternal(fn.Parent())
		} else {
			// wrappers, bound methods, thunks: look at the object
			if obj := fn.Object(); obj != nil && obj.Pkg() != nil {
				return strings.HasPrefix(obj.Pkg().Path(), e.Cfg.ModulePath)
			}
			// bound method closure / thunk without object: treat as internal glue
			return true
		}
	}
	return strings.HasPrefix(p.Pkg.Path(), e.Cfg.ModulePath)
}

func (e *Engine) pos(p token.Pos) string {
	if !p.IsValid() {
		return "?"
	}
	ps := e.Fset.Position(p)
	f := ps.Filename
	if i := strings.Index(f, "/repo/"); i >= 0 {
		f = f[i+6:]
	}
	return fmt.Sprintf("%s:%d", f, ps.Line)
}

// Pool is the shared work list of decision prefixes.
type Pool struct {
	mu     sync.Mutex
	cond   *sync.Cond
	work   [][]int
	active int
	paths  int
	stop   string
}

func (p *Pool) push(d []int) {
	p.mu.Lock()
	p.work = append(p.work, d)
	p.mu.Unlock()
	p.cond.Signal()
}

// pop blocks until a prefix is available or everything is done.
func (p *Pool) pop() ([]int, bool) {
	p.mu.Lock()
	defer p.mu.Unlock()
	for {
		if p.stop != "" {
			return nil, false
		}
		if len(p.work) > 0 {
			d := p.work[len(p.work)-1]
			p.work = p.work[:len(p.work)-1]
			p.active++
			p.paths++
			return d, true
		}
		if p.active == 0 {
			p.cond.Broadcast()
			return nil, false
		}
		p.cond.Wait()
	}
}

func (p *Pool) done() {
	p.mu.Lock()
	p.active--
	if p.active == 0 && len(p.work) == 0 {
		p.cond.Broadcast()
	}
	p.mu.Unlock()
}

// ExploreParallel runs entry under all decision vectors with `workers` engines,
// each with its own solver process, sharing one work list.
func ExploreParallel(prog *ssa.Program, cfg Config, newSolver func() (*smt.Solver, error), entry *ssa.Function, inits []*ssa.Function, workers int) (*Result, error) {
	t0 := time.Now()
	pool := &Pool{work: [][]int{{}}}
	pool.cond = sync.NewCond(&pool.mu)
	engines := make([]*Engine, workers)
	var wg sync.WaitGroup
	for w := 0; w < workers; w++ {
		sol, err := newSolver()
		if err != nil {
			return nil, err
		}
		e := NewEngine(prog, sol, cfg)
		e.pool = pool
		e.initFuncs = inits
		e.Res = &Result{Entry: entry.String(), PathEnds: map[string]int{}, Covers: map[string]int{}, Facts: map[string]int{}, Files: map[string]bool{}}
		engines[w] = e
		wg.Add(1)
		go func(e *Engine) {
			defer wg.Done()
			defer e.Solver.Close()
			for {
				dec, ok := pool.pop()
				if !ok {
					return
				}
				if pool.paths > cfg.MaxPaths {
					pool.mu.Lock()
					pool.stop = fmt.Sprintf("path budget %d exhausted with %d pending", cfg.MaxPaths, len(pool.work))
					pool.mu.Unlock()
					pool.cond.Broadcast()
					pool.done()
					return
				}
				if !cfg.Deadline.IsZero() && time.Now().After(cfg.Deadline) {
					pool.mu.Lock()
					pool.stop = fmt.Sprintf("deadline reached with %d pending prefixes", len(pool.work))
					pool.mu.Unlock()
					pool.cond.Broadcast()
					pool.done()
					return
				}
				e.runPath(entry, dec)
				pool.done()
			}
		}(e)
	}
	wg.Wait()
	// merge
	res := &Result{Entry: entry.String(), PathEnds: map[string]int{}, Covers: map[string]int{}, Facts: map[string]int{}, Files: map[string]bool{}}
	funcs, unmod, stubs := map[string]bool{}, map[string]bool{}, map[string]bool{}
	inc := map[string]bool{}
	for _, e := range engines {
		r := e.Res
		res.Paths += r.Paths
		for k, v := range r.PathEnds {
			res.PathEnds[k] += v
		}
		for k, v := range r.Covers {
			res.Covers[k] += v
		}
		for k, v := range r.Facts {
			res.Facts[k] += v
		}
		for k := range r.Files {
			res.Files[k] = true
		}
		res.Violations = append(res.Violations, r.Violations...)
		for _, s := range r.Incomplete {
			inc[s] = true
		}
		res.UnknownBranch += r.UnknownBranch
		res.Steps += r.Steps
		if len(res.Samples) < 6 {
			res.Samples = append(res.Samples, r.Samples...)
		}
		if r.MaxDepthSeen > res.MaxDepthSeen {
			res.MaxDepthSeen = r.MaxDepthSeen
		}
		if r.MaxLoopSeen > res.MaxLoopSeen {
			res.MaxLoopSeen = r.MaxLoopSeen
		}
		res.SchedPoints += r.SchedPoints
		for f := range e.funcs {
			funcs[f] = true
		}
		for f := range e.unmod {
			unmod[f] = true
		}
		for f := range e.stubs {
			stubs[f] = true
		}
		res.Queries.Sat += e.Solver.Stats.Sat
		res.Queries.Unsat += e.Solver.Stats.Unsat
		res.Queries.Unknown += e.Solver.Stats.Unknown
		res.Queries.Errors += e.Solver.Stats.Errors
		res.Queries.Time += e.Solver.Stats.Time
	}
	if pool.stop != "" {
		inc[pool.stop] = true
	}
	for s := range inc {
		res.Incomplete = append(res.Incomplete, s)
	}
	sort.Strings(res.Incomplete)
	for f := range funcs {
		res.Functions = append(res.Functions, f)
	}
	sort.Strings(res.Functions)
	for f := range unmod {
		res.Unmodelled = append(res.Unmodelled, f)
	}
	sort.Strings(res.Unmodelled)
	for f := range stubs {
		res.Stubs = append(res.Stubs, f)
	}
	sort.Strings(res.Stubs)
	sort.SliceStable(res.Violations, func(i, j int) bool {
		a, b := res.Violations[i], res.Violations[j]
		if a.Kind != b.Kind {
			return a.Kind < b.Kind
		}
		if a.ID != b.ID {
			return a.ID < b.ID
		}
		if a.Pos != b.Pos {
			return a.Pos < b.Pos
		}
		return len(a.Path) < len(b.Path)
	})
	res.SolverTimeS = res.Queries.Time.Seconds()
	res.WallS = time.Since(t0).Seconds()
	return res, nil
}

func (e *Engine) runPath(entry *ssa.Function, dec []int) {
	st := &State{eng: e, sol: e.Solver, dec: dec, varCounter: map[string]int{}, globals: map[*ssa.Global]*Loc{},
		timersOn: true, prov: map[string][]Prov{}, ufArg: map[string]string{}, jsonCache: map[string]Val{}, ufCache: map[string]Val{}}
	e.Solver.PopTo(0)
	e.Solver.Push()
	end := "ok"
	msg := ""
	func() {
		defer func() {
			if r := recover(); r != nil {
				if pe, ok := r.(pathEnd); ok {
					end = pe.kind
					msg = pe.msg
					return
				}
				end = "engine-error"
				msg = fmt.Sprint(r)
				if len(msg) > 300 {
					msg = msg[:300]
				}
				return
			}
		}()
		st.runInits()
		g := &G{ID: 0, Status: "runnable", Name: "main", Started: true, Parent: -1}
		st.gs = append(st.gs, g)
		fr := st.newFrame(entry, nil, nil)
		g.Stack = append(g.Stack, fr)
		st.run()
	}()
	e.Res.Paths++
	e.Res.PathEnds[end]++
	e.Res.Steps += st.steps
	e.Res.UnknownBranch += st.unknown
	if end == "engine-error" || end == "unsupported" || end == "deadline" {
		e.Res.Incomplete = append(e.Res.Incomplete, end+": "+msg)
	}
	if len(e.Res.Samples) < 6 {
		tr := st.trace
		if len(tr) > 40 {
			tr = tr[:40]
		}
		e.Res.Samples = append(e.Res.Samples, PathSummary{Decisions: len(st.taken), End: end + " " + msg, Trace: tr})
	}
	if e.Cfg.Verbose {
		fmt.Printf("path %d dec=%v end=%s %s steps=%d\n", e.Res.Paths, st.taken, end, msg, st.steps)
	}
}

func (st *State) fail(kind, msg string) {
	panic(pathEnd{kind: kind, msg: msg})
}

func (st *State) freshName(base string) string {
	base = sanitize(base)
	n := st.varCounter[base]
	st.varCounter[base] = n + 1
	if n == 0 {
		return base
	}
	return fmt.Sprintf("%s!%d", base, n)
}

func sanitize(s string) string {
	var sb strings.Builder
	for _, c := range s {
		switch {
		case c >= 'a' && c <= 'z', c >= 'A' && c <= 'Z', c >= '0' && c <= '9', c == '_', c == '.', c == '!', c == '$':
			sb.WriteRune(c)
		default:
			sb.WriteByte('_')
		}
	}
	if sb.Len() == 0 {
		return "v"
	}
	r := sb.String()
	if r[0] >= '0' && r[0] <= '9' {
		r = "v" + r
	}
	return r
}

func (st *State) freshVar(base string, s Sort) *Term {
	if s.K == KStr && st.eng.Cfg.BVStr {
		capn := st.eng.Cfg.MaxStrLen
		if capn <= 0 {
			capn = 8
		}
		return st.freshBStr(st.freshName(base), capn)
	}
	name := st.freshName(base)
	st.sol.Cmd(fmt.Sprintf("(declare-const %s %s)", name, s.SMT()))
	st.decls = append(st.decls, namedVar{name, s})
	t := Var(name, s)
	if s.K == KStr {
		if st.eng.Cfg.StrBytes {
			// all characters are bytes
			st.assume(&Term{S: fmt.Sprintf("(str.in_re %s (re.* (re.range \"\\u{0}\" \"\\u{ff}\")))", name), Sort: SBool})
		}
		if st.eng.Cfg.MaxStrLen > 0 {
			st.assume(&Term{S: fmt.Sprintf("(<= (str.len %s) %d)", name, st.eng.Cfg.MaxStrLen), Sort: SBool})
		}
	}
	return t
}

// assume adds c to the path condition without a feasibility check.
func (st *State) assume(c *Term) {
	if c.IsTrue() {
		return
	}
	st.pcond = append(st.pcond, c)
	st.sol.Assert(c.S)
}

// choose picks one of n alternatives; cond(i) is the condition under which i applies
// (nil cond => free choice, always feasible).
func (st *State) choose(n int, cond func(i int) *Term) int {
	// the wall-clock budget also ends paths that are under way (a path made of slow solver queries would otherwise run on)
	if d := st.eng.Cfg.Deadline; !d.IsZero() && time.Now().After(d) {
		st.fail("deadline", "wall-clock budget reached inside a path")
	}
	if st.pos < len(st.dec) {
		i := st.dec[st.pos]
		st.pos++
		st.taken = append(st.taken, i)
		if cond != nil {
			st.assume(cond(i))
		}
		return i
	}
	st.pos++
	first := -1
	var feas []int
	for i := 0; i < n; i++ {
		if cond == nil {
			feas = append(feas, i)
			continue
		}
		c := cond(i)
		if c.IsFalse() {
			continue
		}
		if c.IsTrue() {
			feas = append(feas, i)
			continue
		}
		// last alternative and nothing else feasible: path condition is satisfiable, so this one is
		if i == n-1 && len(feas) == 0 {
			feas = append(feas, i)
			continue
		}
		r := st.sol.CheckWith(c.S)
		if r == smt.Unsat {
			continue
		}
		if r == smt.Unknown {
			st.unknown++
		}
		feas = append(feas, i)
	}
	if len(feas) == 0 {
		st.fail("infeasible", "no feasible alternative")
	}
	first = feas[0]
	for k := len(feas) - 1; k >= 1; k-- {
		alt := make([]int, len(st.taken)+1)
		copy(alt, st.taken)
		alt[len(st.taken)] = feas[k]
		st.eng.pool.push(alt)
	}
	st.taken = append(st.taken, first)
	if cond != nil {
		st.assume(cond(first))
	}
	return first
}

func (st *State) branch(c *Term) bool {
	if c.Const {
		return c.U == 1
	}
	i := st.choose(2, func(i int) *Term {
		if i == 0 {
			return c
		}
		return Not(c)
	})
	return i == 0
}

// concretize forks over the feasible values of a BV term (bounded by max distinct values).
func (st *State) concretize(t *Term, max int) uint64 {
	if t.Const {
		return t.U
	}
	if st.pos < len(st.dec) {
		// replay: value stored as decision
		v := st.dec[st.pos]
		st.pos++
		st.taken = append(st.taken, v)
		st.assume(Eq(t, BV(t.Sort.W, uint64(v))))
		return uint64(v)
	}
	st.pos++
	// enumerate values
	sol := st.sol
	var vals []uint64
	sol.Push()
	for len(vals) <= max {
		r := sol.Check()
		if r != smt.Sat {
			if r == smt.Unknown {
				st.unknown++
			}
			break
		}
		mv := sol.GetValues([]string{t.S})
		v, ok := parseBV(mv[t.S])
		if !ok {
			break
		}
		vals = append(vals, v)
		sol.Assert(Not(Eq(t, BV(t.Sort.W, v))).S)
	}
	sol.Pop()
	if len(vals) == 0 {
		st.fail("infeasible", "concretize: no value")
	}
	if len(vals) > max {
		st.eng.Res.Incomplete = append(st.eng.Res.Incomplete, "concretize: more than max values for "+t.S)
		vals = vals[:max]
	}
	sort.Slice(vals, func(i, j int) bool { return vals[i] < vals[j] })
	for k := len(vals) - 1; k >= 1; k-- {
		alt := make([]int, len(st.taken)+1)
		copy(alt, st.taken)
		alt[len(st.taken)] = int(vals[k])
		st.eng.pool.push(alt)
	}
	st.taken = append(st.taken, int(vals[0]))
	st.assume(Eq(t, BV(t.Sort.W, vals[0])))
	return vals[0]
}

func parseBV(s string) (uint64, bool) {
	s = strings.TrimSpace(s)
	var v uint64
	if strings.HasPrefix(s, "#x") {
		_, err := fmt.Sscanf(s[2:], "%x", &v)
		return v, err == nil
	}
	if strings.HasPrefix(s, "#b") {
		for _, c := range s[2:] {
			v = v<<1 | uint64(c-'0')
		}
		return v, true
	}
	if strings.HasPrefix(s, "(_ bv") {
		_, err := fmt.Sscanf(s, "(_ bv%d", &v)
		return v, err == nil
	}
	return 0, false
}

// check: runtime check / assertion. cond must hold; if it can fail, record a violation,
// then continue under the assumption that it holds.
func (st *State) check(cond *Term, kind, id, msg string, pos token.Pos) {
	if cond.IsTrue() {
		return
	}
	sol := st.sol
	neg := Not(cond)
	var r smt.Result
	if neg.IsTrue() {
		r = smt.Sat
		// make sure the path itself is feasible (it is, by construction)
	} else {
		sol.Push()
		sol.Assert(neg.S)
		r = sol.Check()
		if r == smt.Sat {
			st.recordViolation(kind, id, msg, pos, false)
		}
		sol.Pop()
	}
	if neg.IsTrue() {
		st.recordViolation(kind, id, msg, pos, false)
		st.fail(kind, id+" "+msg)
	}
	if r == smt.Unknown {
		st.unknown++
		st.recordViolation(kind, id, msg+" (solver: unknown)", pos, true)
	}
	if r != smt.Unsat {
		// continue on the branch where the check passes, if feasible
		if sol.CheckWith(cond.S) == smt.Unsat {
			st.fail(kind, id+" "+msg)
		}
	}
	st.assume(cond)
}

// softCheck: a harness assertion. A possible failure is recorded; execution continues
// (under the assumption that the assertion held, when that is still feasible).
func (st *State) softCheck(cond *Term, id, msg string, pos token.Pos) {
	if cond.IsTrue() {
		return
	}
	if cond.IsFalse() {
		st.recordViolation("assert", id, msg, pos, false)
		return
	}
	sol := st.sol
	sol.Push()
	sol.Assert(Not(cond).S)
	r := sol.Check()
	if r == smt.Sat {
		st.recordViolation("assert", id, msg, pos, false)
	}
	sol.Pop()
	if r == smt.Unknown {
		st.unknown++
		st.recordViolation("assert", id, msg+" (solver: unknown)", pos, true)
	}
	if r != smt.Unsat {
		if sol.CheckWith(cond.S) == smt.Unsat {
			return // always fails here; keep going without assuming
		}
	}
	st.assume(cond)
}

func (st *State) recordViolation(kind, id, msg string, pos token.Pos, unknown bool) {
	e := st.eng
	key := kind + "|" + id + "|" + e.pos(pos)
	for _, d := range st.draws {
		if d.Kind == "choice" {
			key += "|" + d.Name + "=" + d.Value
		}
	}
	e.violSeen[key]++
	if e.violSeen[key] > 1 {
		return // keep one witness per (kind,id,pos,concrete choices)
	}
	v := Violation{ID: id, Kind: kind, Msg: msg, Pos: e.pos(pos), Unknown: unknown}
	v.Path = append([]int(nil), st.taken...)
	v.Trace = append([]string(nil), st.trace...)
	if len(st.gs) > 0 && st.cur < len(st.gs) {
		for _, fr := range st.gs[st.cur].Stack {
			v.Stack = append(v.Stack, fr.Fn.String())
			if !strings.Contains(fr.Fn.String(), "H_") && !strings.Contains(fr.Fn.String(), "zz_verif") {
				v.Func = fr.Fn.String()
			}
		}
	}
	if !unknown {
		// model: solver state currently holds pc (and the negated check if pushed); need a sat check
		if st.sol.Check() == smt.Sat {
			v.Model = map[string]string{}
			var names []string
			for _, d := range st.decls {
				names = append(names, d.Name)
			}
			if len(names) > 400 {
				names = names[:400]
			}
			for k, val := range st.sol.GetValues(names) {
				v.Model[k] = val
			}
			for _, d := range st.draws {
				dd := d
				if dd.T != nil || dd.Term != "" {
					t := dd.T
					if t == nil {
						var srt Sort
						for _, dc := range st.decls {
							if dc.Name == dd.Term {
								srt = dc.Sort
							}
						}
						t = Var(dd.Term, srt)
					}
					val := st.evalTerm(t)
					switch x := val.(type) {
					case bool:
						dd.Value = fmt.Sprint(x)
					case uint64:
						if dd.Kind == "int" {
							dd.Value = fmt.Sprint(signed(t.Sort.W, x))
						} else {
							dd.Value = fmt.Sprint(x)
						}
					case string:
						dd.Value = fmt.Sprintf("hex:%x", x)
					}
				}
				v.Draws = append(v.Draws, dd)
			}
			v.JSON, v.Contains = st.concretizeJSON()
		}
	}
	e.Res.Violations = append(e.Res.Violations, v)
}

func (st *State) logf(format string, args ...interface{}) {
	if len(st.trace) < 400 {
		st.trace = append(st.trace, fmt.Sprintf(format, args...))
	}
}
