//go:build verif

package ws

import (
	"errors"
	"fmt"
	"net"
	"net/http"
	"net/http/httptest"
	"strings"
	"sync"
	"sync/atomic"
	"time"

	"github.com/enbility/ship-go/zzvrt"
	"github.com/gorilla/websocket"
)

// ---- native twin of the ws harness: a real gorilla connection over a loopback socket ----
// Used only for replay: schedule-dependent findings are reproduced by stress (many attempts).

type wrapConn struct {
	net.Conn
	failWriteAt int32 // fail every write from the n-th on (0 = never)
	writes      int32
	closed      int32
	gate        atomic.Value // chan struct{}: while set and open, writes block (a peer that does not read)
}

func (c *wrapConn) Write(b []byte) (int, error) {
	if g, ok := c.gate.Load().(chan struct{}); ok && g != nil {
		<-g
	}
	n := atomic.AddInt32(&c.writes, 1)
	f := atomic.LoadInt32(&c.failWriteAt)
	if f != 0 && n >= f {
		time.Sleep(30 * time.Millisecond) // a stalled transport: writers queue up meanwhile
		return 0, errors.New("injected write failure")
	}
	return c.Conn.Write(b)
}

func (c *wrapConn) Close() error {
	atomic.AddInt32(&c.closed, 1)
	return c.Conn.Close()
}

type nProc struct {
	mu                   sync.Mutex
	noClose              bool // the processor does not close the data connection itself (its own close is already in progress)
	w                    *WebsocketConnection
	reports              int
	delivered            int
	onReport             func() // runs inside ReportConnectionError (the SHIP layer being busy with the error)
	deliveredAfterReport int
}

func (p *nProc) HandleIncomingWebsocketMessage(m []byte) {
	p.mu.Lock()
	p.delivered++
	if p.reports > 0 {
		p.deliveredAfterReport++
	}
	p.mu.Unlock()
}

func (p *nProc) ReportConnectionError(err error) {
	p.mu.Lock()
	p.reports++
	noClose := p.noClose
	hook := p.onReport
	p.mu.Unlock()
	if hook != nil {
		hook()
	}
	if !noClose {
		p.w.CloseDataConnection(4001, "") // what ShipConnection.ReportConnectionError -> CloseConnection does
	}
}

func (p *nProc) counts() (int, int) {
	p.mu.Lock()
	defer p.mu.Unlock()
	return p.reports, p.delivered
}

type nPair struct {
	w    *WebsocketConnection
	proc *nProc
	wc   *wrapConn
	peer *websocket.Conn
	srv  *httptest.Server
}

func newNativePair() (*nPair, error) {
	p, err := newNativePairNoInit()
	if err != nil {
		return nil, err
	}
	p.proc = &nProc{}
	p.proc.w = p.w
	p.w.InitDataProcessing(p.proc)
	return p, nil
}

// the connection without a data processor (the caller attaches one via InitDataProcessing)
func newNativePairNoInit() (*nPair, error) {
	p := &nPair{}
	peerCh := make(chan *websocket.Conn, 1)
	up := websocket.Upgrader{}
	p.srv = httptest.NewServer(http.HandlerFunc(func(rw http.ResponseWriter, r *http.Request) {
		c, err := up.Upgrade(rw, r, nil)
		if err == nil {
			peerCh <- c
		}
	}))
	d := websocket.Dialer{NetDial: func(network, addr string) (net.Conn, error) {
		c, err := net.Dial(network, addr)
		if err != nil {
			return nil, err
		}
		p.wc = &wrapConn{Conn: c}
		return p.wc, nil
	}}
	conn, _, err := d.Dial("ws"+strings.TrimPrefix(p.srv.URL, "http"), nil)
	if err != nil {
		return nil, err
	}
	select {
	case p.peer = <-peerCh:
	case <-time.After(2 * time.Second):
		return nil, errors.New("no peer")
	}
	p.w = NewWebsocketConnection(conn, "ski")
	return p, nil
}

func (p *nPair) cleanup() {
	p.w.CloseDataConnection(4001, "")
	p.peer.Close()
	p.srv.Close()
}

// H_C12_Native: writers racing the closure of the connection, many attempts; any panic or stuck writer is a failure.
func H_C12_Native() {
	for it := 0; it < 150; it++ {
		p, err := newNativePair()
		if err != nil {
			zzvrt.Log("pair: " + err.Error())
			continue
		}
		p.proc.mu.Lock()
		p.proc.noClose = it%2 == 1
		p.proc.mu.Unlock()
		var wg sync.WaitGroup
		var panicked atomic.Value
		for i := 0; i < 4; i++ {
			wg.Add(1)
			go func(i int) {
				defer wg.Done()
				defer func() {
					if r := recover(); r != nil {
						panicked.Store(fmt.Sprint(r))
					}
				}()
				for k := 0; k < 3; k++ {
					_ = p.w.WriteMessageToWebsocketConnection([]byte{2, byte('a' + i), byte('0' + k)})
				}
			}(i)
		}
		switch it % 3 {
		case 0:
			go p.w.CloseDataConnection(4001, "")
		case 1:
			go p.peer.Close()
		case 2:
			atomic.StoreInt32(&p.wc.failWriteAt, 2)
		}
		done := make(chan struct{})
		go func() { wg.Wait(); close(done) }()
		select {
		case <-done:
		case <-time.After(3 * time.Second):
			zzvrt.Fail("C12.writer-blocked-forever")
		}
		if v := panicked.Load(); v != nil {
			zzvrt.Log("panic: " + v.(string))
			zzvrt.Fail("C12.panic")
		}
		p.cleanup()
		if len(zzvrt.Failures) > 0 {
			return
		}
	}
	c12NativeOrder(400)
}

// c12NativeOrder: one writer sending numbered messages back-to-back while the connection is closed locally a few hundred
// microseconds in; the peer records what it receives: it must be 0,1,2,.. without gap, duplicate or reordering, and not
// longer than the number of accepted writes.
func c12NativeOrder(rounds int) {
	for it := 0; it < rounds; it++ {
		p, err := newNativePair()
		if err != nil {
			continue
		}
		var got []byte
		recvDone := make(chan struct{})
		go func() {
			defer close(recvDone)
			for {
				_ = p.peer.SetReadDeadline(time.Now().Add(2 * time.Second))
				t, m, err := p.peer.ReadMessage()
				if err != nil {
					return
				}
				if t == websocket.BinaryMessage && len(m) == 2 {
					got = append(got, m[1])
				}
			}
		}()
		accepted := 0
		wdone := make(chan struct{})
		go func() {
			defer close(wdone)
			for k := 0; k < 10; k++ {
				if p.w.WriteMessageToWebsocketConnection([]byte{2, byte(k)}) == nil {
					accepted++
				}
			}
		}()
		time.Sleep(time.Duration(20+(it*37)%400) * time.Microsecond)
		if it%2 == 0 {
			p.w.CloseDataConnection(4001, "")
		} else {
			p.w.CloseDataConnection(4500, "bye")
		}
		select {
		case <-wdone:
		case <-time.After(3 * time.Second):
			zzvrt.Fail("C12.writer-blocked-forever")
		}
		p.peer.SetReadDeadline(time.Now().Add(300 * time.Millisecond))
		select {
		case <-recvDone:
		case <-time.After(3 * time.Second):
		}
		ok := len(got) <= accepted
		for i, b := range got {
			if int(b) != i {
				ok = false
			}
		}
		if !ok {
			zzvrt.Log(fmt.Sprintf("accepted %d, peer received %v", accepted, got))
			zzvrt.Fail("C12.frames-not-a-prefix")
		}
		p.peer.Close()
		p.srv.Close()
		if len(zzvrt.Failures) > 0 {
			return
		}
	}
}

// H_C13_Native: transport loss is reported once and releases the socket; a local close reports nothing.
func H_C13_Native() {
	for it := 0; it < 60; it++ {
		p, err := newNativePair()
		if err != nil {
			continue
		}
		cause := it % 5
		p.proc.mu.Lock()
		p.proc.noClose = (it/5)%2 == 1 && cause != 4
		p.proc.mu.Unlock()
		// while the SHIP layer handles the error the peer sends one more frame: it must not be delivered any more
		pp := p
		p.proc.mu.Lock()
		p.proc.onReport = func() {
			_ = pp.peer.WriteMessage(websocket.BinaryMessage, []byte{1, 0, 0})
			time.Sleep(60 * time.Millisecond)
		}
		p.proc.mu.Unlock()
		switch cause {
		case 0: // write error
			atomic.StoreInt32(&p.wc.failWriteAt, 1)
			_ = p.w.WriteMessageToWebsocketConnection([]byte{2, 'x'})
		case 1: // peer goes away
			p.peer.Close()
		case 2: // local close racing traffic
			go func() { _ = p.w.WriteMessageToWebsocketConnection([]byte{2, 'y'}) }()
			go func() { _ = p.w.WriteMessageToWebsocketConnection([]byte{2, 'z'}) }()
			p.w.CloseDataConnection(4500, "bye")
		case 3: // local close with a reason while the transport can no longer be written: still a local close
			atomic.StoreInt32(&p.wc.failWriteAt, 1)
			p.w.CloseDataConnection(4500, "bye")
		case 4: // the ping period elapses (50 s in reality: the tick handler is called directly) and the PING can not be written
			atomic.StoreInt32(&p.wc.failWriteAt, 1)
			p.w.handlePing()
		}
		time.Sleep(120 * time.Millisecond)
		reports, _ := p.proc.counts()
		closed, cerr := p.w.IsDataConnectionClosed()
		switch cause {
		case 0, 1, 4:
			zzvrt.Assert(reports >= 1, "C13.transport-loss-not-reported")
			zzvrt.Assert(closed && cerr != nil, "C13.closed-query-after-transport-loss")
		case 2, 3:
			zzvrt.Assert(reports == 0, "C13.error-reported-after-local-close")
			zzvrt.Assert(closed, "C13.not-closed-after-local-close")
		}
		zzvrt.Assert(reports <= 1, "C13.error-reported-twice")
		p.proc.mu.Lock()
		late := p.proc.deliveredAfterReport
		p.proc.mu.Unlock()
		zzvrt.Assert(late == 0, "C13.message-delivered-after-close")
		zzvrt.Assert(atomic.LoadInt32(&p.wc.closed) >= 1, "C13.socket-not-closed")
		p.cleanup()
		if len(zzvrt.Failures) > 0 {
			return
		}
	}
}
