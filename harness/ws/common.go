//go:build verif

package ws

import (
	"errors"

	"github.com/enbility/ship-go/api"
	"github.com/enbility/ship-go/zzvrt"
	"github.com/gorilla/websocket"
)

// ---- environment of one websocket connection (the gorilla *websocket.Conn is cut to these functions) ----

type readEvt struct {
	typ  int
	data []byte
	err  error
}

type wsEnv struct {
	w                    *WebsocketConnection
	readCh               chan readEvt  // frames / errors arriving from the peer (buffered, never closed)
	closedCh             chan struct{} // closed by conn.Close()
	connClosed           bool          // conn.Close() was called
	closeCalls           int
	frames               [][]byte // binary frames handed to conn.WriteMessage, in order
	ctlFrames            int      // close / ping frames
	writeN               int      // number of WriteMessage calls so far
	failWrite            int      // the k-th WriteMessage fails (0 = never)
	writers              int      // goroutines currently inside conn.WriteMessage
	stall      chan struct{} // while open: data-frame writes block in the transport (a peer that does not read); closed = transport continues
	failCtl              bool     // every control-frame (close / ping) write fails: the transport is broken for writing when the local close starts
	failedCtl            int      // control-frame writes that failed
	failedData           int      // data-frame writes that failed by injection
	reports              int      // ReportConnectionError calls
	delivered            int      // HandleIncomingWebsocketMessage calls
	deliveredAfterClosed int
	lateReads            int // frames returned by ReadMessage while the connection was already marked closed
	lastLate             bool
	loopBack             bool // ReportConnectionError closes the data connection (as ShipConnection does)
}

var env *wsEnv

// data processor fake (api.WebsocketDataReaderInterface)
type vProc struct{ e *wsEnv }

func (p *vProc) HandleIncomingWebsocketMessage(m []byte) {
	p.e.delivered++
	if p.e.lastLate {
		p.e.deliveredAfterClosed++ // a frame read after the closed flag was set must not be delivered
	}
}

func (p *vProc) ReportConnectionError(err error) {
	p.e.reports++
	if p.e.loopBack {
		p.e.w.CloseDataConnection(4001, "")
	}
}

var _ api.WebsocketDataReaderInterface = (*vProc)(nil)

// ---- replacements for (*websocket.Conn) methods ----

func vReadMessage(c *websocket.Conn) (int, []byte, error) {
	select {
	case ev := <-env.readCh:
		env.lastLate = env.w.isConnClosed()
		return ev.typ, ev.data, ev.err
	case <-env.closedCh:
		return 0, nil, errors.New("use of closed network connection")
	}
}

func vWriteMessage(c *websocket.Conn, messageType int, data []byte) error {
	// gorilla allows one concurrent writer only (it panics with "concurrent write to websocket connection"): a write
	// takes time, another goroutine entering meanwhile is the library's fault
	env.writers++
	if env.writers > 1 {
		env.writers--
		zzvrt.Fail("C12.concurrent-write-to-the-websocket-connection")
		return errors.New("concurrent write")
	}
	zzvrt.Yield()
	if env.stall != nil && messageType == websocket.BinaryMessage {
		<-env.stall
	}
	env.writers--
	env.writeN++
	if env.connClosed {
		return errors.New("use of closed network connection")
	}
	if env.failWrite != 0 && env.writeN == env.failWrite {
		if messageType == websocket.BinaryMessage {
			env.failedData++
		} else {
			env.failedCtl++
		}
		return errors.New("write failed")
	}
	if env.failCtl && messageType != websocket.BinaryMessage {
		env.failedCtl++
		return errors.New("control frame write failed")
	}
	if messageType == websocket.BinaryMessage {
		env.frames = append(env.frames, data)
	} else {
		env.ctlFrames++
	}
	return nil
}

func vConnClose(c *websocket.Conn) error {
	env.closeCalls++
	if !env.connClosed {
		env.connClosed = true
		close(env.closedCh)
	}
	return nil
}

func newWsEnv(loopBack bool) *wsEnv {
	e := &wsEnv{readCh: make(chan readEvt, 4), closedCh: make(chan struct{}), loopBack: loopBack}
	env = e
	e.w = NewWebsocketConnection(&websocket.Conn{}, "ski")
	e.w.InitDataProcessing(&vProc{e: e})
	return e
}

var _ = zzvrt.Symbolic
