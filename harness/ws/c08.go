//go:build verif

package ws

import (
	"sync"
	"sync/atomic"
	"time"

	"github.com/enbility/ship-go/api"
	"github.com/enbility/ship-go/model"
	"github.com/enbility/ship-go/ship"
	"github.com/enbility/ship-go/zzvrt"
	"github.com/gorilla/websocket"
)

// ---- composition: the real websocket layer driving the real SHIP connection ----
// The per-layer harnesses use a fake on the other side of the api interfaces; obligations that only exist
// between the two layers (CloseDataConnection is called from inside CloseConnection's sync.Once, so it
// must not call back into the SHIP connection synchronously) are visible only here.

type wsInfo struct {
	mu      sync.Mutex
	paired  bool
	closed  int
	reader  *wsReader
	updates int
}

type wsReader struct{ n int }

func (r *wsReader) HandleShipPayloadMessage(m []byte) { r.n++ }

func (i *wsInfo) IsRemoteServiceForSKIPaired(string) bool { return i.paired }
func (i *wsInfo) IsAutoAcceptEnabled() bool               { return false }
func (i *wsInfo) HandleConnectionClosed(api.ShipConnectionInterface, bool) {
	i.mu.Lock()
	i.closed++
	i.mu.Unlock()
}
func (i *wsInfo) ReportServiceShipID(string, string) {}
func (i *wsInfo) AllowWaitingForTrust(string) bool   { return true }
func (i *wsInfo) HandleShipHandshakeStateUpdate(string, model.ShipState) {
	i.mu.Lock()
	i.updates++
	i.mu.Unlock()
}
func (i *wsInfo) SetupRemoteDevice(string, api.ShipConnectionDataWriterInterface) api.ShipConnectionDataReaderInterface {
	return i.reader
}
func (i *wsInfo) closedCount() int {
	i.mu.Lock()
	defer i.mu.Unlock()
	return i.closed
}

// H_C08_WsShip: a server- or client-role connection on top of the websocket layer; the peer delivers two
// arbitrary frames, the transport fails at a symbolic k-th write. Nothing may deadlock (a goroutine stuck
// in a re-entered Once wedges the receive loop), and a closed transport means the end was reported once.
func H_C08_WsShip() {
	zzvrt.SetTimers(false) // no handshake timeout elapses on its own; delayed closes are fired explicitly below
	e := &wsEnv{readCh: make(chan readEvt, 4), closedCh: make(chan struct{})}
	env = e
	e.w = NewWebsocketConnection(&websocket.Conn{}, "ski")
	info := &wsInfo{paired: zzvrt.Bool("info.paired"), reader: &wsReader{}}
	role := ship.ShipRoleServer
	if zzvrt.Bool("role.client") {
		role = ship.ShipRoleClient
	}
	e.failWrite = zzvrt.Int("env.failWrite", 0, 4)
	sc := ship.NewConnectionHandler(info, e.w, role, "local-ship-id", "ski", "remote-ship-id")
	sc.Run()
	frames := zzvrt.Param("frames", 2)
	go func() {
		for k := 0; k < frames; k++ {
			m := zzvrt.Bytes("msg")
			zzvrt.Assume(len(m) >= 2)
			e.readCh <- readEvt{typ: websocket.BinaryMessage, data: m}
		}
	}()
	zzvrt.WaitQuiescent()
	// delayed close closures (abort / announce) are timer driven: let them run, then settle again
	zzvrt.FireTimersUpTo(2 * time.Second)
	zzvrt.WaitQuiescent()
	n := info.closedCount()
	zzvrt.Assert(n <= 1, "C08.connection-end-reported-twice")
	if e.connClosed {
		zzvrt.Assert(n == 1, "C08.transport-closed-but-end-not-reported")
		zzvrt.Assert(zzvrt.NumLive("readShipPump") == 0, "C08.receive-loop-stuck-after-close")
		zzvrt.Assert(zzvrt.NumLive("writeShipPump") == 0, "C08.write-loop-stuck-after-close")
	}
	stt, _ := sc.ShipHandshakeState()
	zzvrt.Fact("wsship", int(stt), n, e.writeN)
	zzvrt.Cover("c08.wsship.end")
}

// H_C08_WsShip_Native: the same composition over a real loopback websocket. The peer makes the library
// close with a reason (garbage / out-of-phase / close announce) while the transport refuses further writes.
func H_C08_WsShip_Native() {
	frames := [][]byte{
		{0x00, 0x01},     // bad init message
		{0x07, 'x', 'y'}, // unknown message type
		[]byte("\x01{\"connectionClose\":[{\"phase\":\"announce\"}]}"), // out-of-phase close announce
		[]byte("\x01{\"connectionHello\":[{\"phase\":\"nonsense\"}]}"),
	}
	// frames of the engine's counterexample (concretised to real bytes by the check), if the tape carries any: the peer sends
	// exactly these, then goes away; a receive loop that is still alive notices the lost transport and reports the end
	var taped [][]byte
	for len(taped) < 4 {
		b := zzvrt.Bytes("msg")
		if len(b) == 0 {
			break
		}
		taped = append(taped, b)
	}
	if len(taped) > 0 {
		for it := 0; it < 4; it++ {
			q, info, err := newNativeShipPair(it%2 == 0, 0)
			if err != nil {
				continue
			}
			if it >= 2 {
				_ = q.peer.WriteMessage(websocket.BinaryMessage, []byte{0x00, 0x00}) // the init message first
			}
			for _, m := range taped {
				_ = q.peer.WriteMessage(websocket.BinaryMessage, m)
			}
			time.Sleep(150 * time.Millisecond)
			q.peer.Close()
			deadline := time.Now().Add(3 * time.Second)
			for time.Now().Before(deadline) && info.closedCount() < 1 {
				time.Sleep(20 * time.Millisecond)
			}
			if info.closedCount() < 1 {
				zzvrt.Fail("C08.receive-loop-stuck-on-peer-frames")
			}
			q.srv.Close()
			if len(zzvrt.Failures) > 0 {
				return
			}
		}
	}
	for it := 0; it < 32; it++ {
		// the transport refuses the k-th and later frames written by the library (k = 1..4: init, hello, abort / close announce / confirm, close frame)
		q, info, err := newNativeShipPair(it%2 == 0, 1+(it/2)%4)
		if err != nil {
			continue
		}
		_ = q.peer.WriteMessage(websocket.BinaryMessage, []byte{0x00, 0x00})
		_ = q.peer.WriteMessage(websocket.BinaryMessage, frames[(it/8)%len(frames)])
		deadline := time.Now().Add(4 * time.Second)
		for time.Now().Before(deadline) {
			if info.closedCount() >= 1 {
				break
			}
			time.Sleep(20 * time.Millisecond)
		}
		if closed, _ := q.w.IsDataConnectionClosed(); closed {
			zzvrt.Assert(info.closedCount() == 1, "C08.transport-closed-but-end-not-reported")
		}
		// a further close must return (a wedged Once blocks every later CloseConnection as well)
		done := make(chan struct{})
		go func() { q.sc.CloseConnection(false, 0, ""); close(done) }()
		select {
		case <-done:
		case <-time.After(3 * time.Second):
			zzvrt.Fail("C08.close-blocked-forever")
		}
		q.peer.Close()
		q.srv.Close()
		if len(zzvrt.Failures) > 0 {
			return
		}
	}
}

type nShipPair struct {
	*nPair
	sc *ship.ShipConnection
}

func newNativeShipPair(server bool, failAt int) (*nShipPair, *wsInfo, error) {
	p, err := newNativePairNoInit()
	if err != nil {
		return nil, nil, err
	}
	if failAt > 0 {
		atomic.StoreInt32(&p.wc.failWriteAt, atomic.LoadInt32(&p.wc.writes)+int32(failAt))
	}
	info := &wsInfo{paired: true, reader: &wsReader{}}
	role := ship.ShipRoleClient
	if server {
		role = ship.ShipRoleServer
	}
	q := &nShipPair{nPair: p}
	q.sc = ship.NewConnectionHandler(info, p.w, role, "local-ship-id", "ski", "remote-ship-id")
	q.sc.Run()
	return q, info, nil
}
