//go:build verif

package ws

import (
	"errors"

	"github.com/enbility/ship-go/zzvrt"
	"github.com/gorilla/websocket"
)

// H_C13: transport loss is reported and releases goroutines and the socket.
// cause: 0 read error / peer close frame, 1 write error at the k-th write, 2 local close without reason,
// 3 local close with reason (its close frame may fail to be written), 4 a ping whose write fails; concurrent traffic: up to `frames` incoming frames and `writes` outgoing messages.
func c13(frames, writes int) {
	e := newWsEnv(zzvrt.Bool("processor.closes"))
	w := e.w
	cause := zzvrt.Choice("cause", 5)
	if cause == 1 {
		e.failWrite = zzvrt.Int("env.failWrite", 1, writes)
	}
	if cause == 3 {
		// the close frame of the deliberate local close can not be written (transport already broken for writing,
		// or a stale write deadline): still a local close - nothing is reported, everything is released
		e.failCtl = zzvrt.Bool("env.failCloseFrame")
	}
	if cause == 4 {
		// the ping period elapses once and the PING frame can not be written: a transport failure like any other.
		// (releasing the pumps after a failed ping relies on the SHIP layer closing the data connection when it is told
		// about the error, as ShipConnection.ReportConnectionError does)
		zzvrt.Assume(e.loopBack)
		e.failCtl = true
	}
	nIn := zzvrt.Choice("frames.in", frames+1)
	wdone := 0
	go func() {
		for k := 0; k < writes; k++ {
			_ = w.WriteMessageToWebsocketConnection([]byte{2, byte('a' + k)})
			wdone++
		}
	}()
	go func() {
		// the peer: some frames, then (cause 0) an error / close frame
		for k := 0; k < nIn; k++ {
			e.readCh <- readEvt{typ: websocket.BinaryMessage, data: []byte{1, 0, 0}}
		}
		if cause == 0 {
			e.readCh <- readEvt{err: errors.New("close 4001 / EOF")}
		}
	}()
	switch cause {
	case 2:
		go func() { w.CloseDataConnection(4001, "") }()
	case 3:
		go func() { w.CloseDataConnection(4500, "bye") }()
	}
	zzvrt.WaitQuiescent()
	if cause == 4 {
		zzvrt.FireTickers()
		zzvrt.WaitQuiescent()
	}
	closed, cerr := w.IsDataConnectionClosed()
	switch cause {
	case 4:
		zzvrt.Assert(e.reports >= 1, "C13.ping-write-error-not-reported")
		zzvrt.Assert(closed && cerr != nil, "C13.closed-query-after-transport-loss")
	case 0:
		zzvrt.Assert(e.reports >= 1, "C13.read-error-not-reported")
		zzvrt.Assert(closed && cerr != nil, "C13.closed-query-after-transport-loss")
	case 1:
		// the failing write happens only if that many writes are attempted before anything else ends the session
		if e.writeN >= e.failWrite {
			zzvrt.Assert(e.reports >= 1, "C13.write-error-not-reported")
			zzvrt.Assert(closed && cerr != nil, "C13.closed-query-after-transport-loss")
		}
	case 2, 3:
		zzvrt.Assert(e.reports == 0, "C13.error-reported-after-local-close")
		zzvrt.Assert(closed, "C13.not-closed-after-local-close")
	}
	zzvrt.Assert(e.reports <= 1, "C13.error-reported-twice")
	zzvrt.Assert(e.deliveredAfterClosed == 0, "C13.message-delivered-after-close")
	if closed {
		zzvrt.Assert(zzvrt.NumLive("readShipPump") == 0, "C13.read-pump-still-running")
		zzvrt.Assert(zzvrt.NumLive("writeShipPump") == 0, "C13.write-pump-still-running")
		zzvrt.Assert(e.connClosed, "C13.socket-not-closed")
		if wdone == writes {
			// name independent: writer, peer and closer threads of the harness have ended, so anything still alive is a
			// goroutine of the library
			zzvrt.Assert(zzvrt.NumLive("") == 0, "C13.library-goroutine-still-running")
		}
	}
	zzvrt.Assert(wdone == writes, "C13.writer-blocked-forever")
	zzvrt.Cover("c13.end")
}

func H_C13_F1W2() { c13(1, 2) }
func H_C13_F2W2() { c13(2, 2) }
