//go:build verif

package ws

import (
	"sync/atomic"
	"time"

	"github.com/enbility/ship-go/ship"
	"github.com/enbility/ship-go/zzvrt"
	"github.com/gorilla/websocket"
)

// H_C06_Burst: the sender side of C06 below the SHIP connection (the native twin runs a completed SHIP connection on top);
// the application hands over a burst of datagrams while the transport is stalled (the peer does not read), then the
// transport continues. The connection stays open throughout, so every datagram handed to the data writer has to reach
// the transport, in order: none may be dropped because a queue is full.
func H_C06_Burst() {
	zzvrt.SetTimers(false)
	e := &wsEnv{readCh: make(chan readEvt, 4), closedCh: make(chan struct{}), stall: make(chan struct{})}
	env = e
	e.w = NewWebsocketConnection(&websocket.Conn{}, "ski")
	e.w.InitDataProcessing(&vProc{e: e})
	// the SHIP layer hands every datagram to WriteMessageToWebsocketConnection and only logs an error (the data writer
	// interface has no result): on an open connection the websocket layer therefore has to take every message
	n := zzvrt.Param("burst", 40)
	handed, refused := 0, 0
	go func() {
		for k := 0; k < n; k++ {
			if err := e.w.WriteMessageToWebsocketConnection([]byte{2, byte(k)}); err != nil {
				refused++
			}
			handed++
		}
	}()
	zzvrt.WaitQuiescent() // the writer has handed over everything, or waits for room in the queue
	close(e.stall)        // the peer reads again
	zzvrt.WaitQuiescent()
	zzvrt.Assert(handed == n, "C06.data-writer-blocked-forever")
	zzvrt.Assert(!e.connClosed && !e.w.isConnClosed(), "C06.connection-closed-by-a-burst")
	zzvrt.Assert(refused == 0, "C06.datagram-refused-on-an-open-connection")
	zzvrt.Assert(len(e.frames) == n, "C06.datagram-dropped-on-an-open-connection")
	for i := range e.frames {
		zzvrt.Assert(e.frames[i][1] == byte(i), "C06.burst-reordered")
	}
	zzvrt.Cover("c06.burst.end")
}

// H_C06_Burst_Native: the same over a loopback websocket whose client socket blocks writes until released.
func H_C06_Burst_Native() {
	p, err := newNativePairNoInit()
	if err != nil {
		zzvrt.Log("pair: " + err.Error())
		return
	}
	info := &wsInfo{paired: true, reader: &wsReader{}}
	sc := ship.NewConnectionHandler(info, p.w, ship.ShipRoleClient, "local-ship-id", "ski", "remote-ship-id")
	ship.VCompleteHandshake(sc)
	var got int32
	go func() {
		for {
			_ = p.peer.SetReadDeadline(time.Now().Add(3 * time.Second))
			t, _, err := p.peer.ReadMessage()
			if err != nil {
				return
			}
			if t == websocket.BinaryMessage {
				atomic.AddInt32(&got, 1)
			}
		}
	}()
	gate := make(chan struct{})
	p.wc.gate.Store(gate)
	n := 120
	done := make(chan struct{})
	go func() {
		for k := 0; k < n; k++ {
			sc.WriteShipMessageWithPayload([]byte(`{"datagram":{}}`))
		}
		close(done)
	}()
	time.Sleep(300 * time.Millisecond) // the burst piles up behind the stalled transport
	close(gate)
	select {
	case <-done:
	case <-time.After(5 * time.Second):
		zzvrt.Fail("C06.data-writer-blocked-forever")
	}
	deadline := time.Now().Add(3 * time.Second)
	for time.Now().Before(deadline) && int(atomic.LoadInt32(&got)) < n {
		time.Sleep(10 * time.Millisecond)
	}
	closed, _ := p.w.IsDataConnectionClosed()
	zzvrt.Assert(!closed, "C06.connection-closed-by-a-burst")
	zzvrt.Assert(int(atomic.LoadInt32(&got)) == n, "C06.datagram-dropped-on-an-open-connection")
	p.cleanup()
}
