//go:build verif

package ws

import (
	"errors"

	"github.com/enbility/ship-go/zzvrt"
	"github.com/gorilla/websocket"
)

type wres struct {
	done         bool
	err          error
	closedAtCall bool
}

// H_C12_WriteClose: writers racing a closing event (local close, peer close / EOF, failing transport write).
func c12(writers, perWriter int) {
	// the data processor either closes the data connection when told about an error (as ShipConnection normally does)
	// or does not (e.g. its own close is already in progress): the websocket layer must release writers either way
	e := newWsEnv(zzvrt.Bool("processor.closes"))
	w := e.w
	e.failWrite = zzvrt.Int("env.failWrite", 0, 3)
	results := make([]*wres, 0, writers*perWriter)
	msgs := [][]byte{{2, 'a'}, {2, 'b'}, {2, 'c'}, {2, 'd'}}
	for i := 0; i < writers; i++ {
		var mine []*wres
		for k := 0; k < perWriter; k++ {
			r := &wres{}
			mine = append(mine, r)
			results = append(results, r)
		}
		base := i * perWriter
		go func() {
			for k, r := range mine {
				r.closedAtCall = w.isConnClosed()
				r.err = w.WriteMessageToWebsocketConnection(msgs[base+k])
				r.done = true
			}
		}()
	}
	// the closing event
	switch zzvrt.Choice("closer", 4) {
	case 0:
		// none (only a possible write failure)
	case 1:
		go func() { w.CloseDataConnection(4001, "") }()
	case 2:
		go func() { w.CloseDataConnection(4500, "bye") }()
	case 3:
		go func() { e.readCh <- readEvt{err: errors.New("EOF / close frame")} }()
	}
	zzvrt.WaitQuiescent()
	for _, r := range results {
		zzvrt.Assert(r.done, "C12.writer-blocked-forever")
		if r.done && r.closedAtCall {
			zzvrt.Assert(r.err != nil, "C12.write-on-closed-connection-accepted")
		}
	}
	// what reached the transport is a duplicate-free sequence of accepted messages, per writer in order
	accepted := 0
	for _, r := range results {
		if r.done && r.err == nil {
			accepted++
		}
	}
	zzvrt.Assert(len(e.frames) <= accepted, "C12.more-frames-than-accepted")
	for i := range e.frames {
		for j := i + 1; j < len(e.frames); j++ {
			zzvrt.Assert(e.frames[i][1] != e.frames[j][1], "C12.frame-duplicated")
		}
	}
	if writers == 1 {
		for i := range e.frames {
			zzvrt.Assert(e.frames[i][1] == msgs[i][1], "C12.frames-not-a-prefix")
		}
	}
	zzvrt.Cover("c12.end")
	_ = websocket.BinaryMessage
}

func H_C12_W1x2() { c12(1, 2) }
func H_C12_W2x1() { c12(2, 1) }
func H_C12_W2x2() { c12(2, 2) }

func H_C12_W1x3() { c12(1, 3) }
func H_C12_W3x1() { c12(3, 1) }
