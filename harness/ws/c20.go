//go:build verif

package ws

import (
	"errors"

	"github.com/enbility/ship-go/zzvrt"
	"github.com/gorilla/websocket"
)

// H_C20_Ws: writer, closer and closed-query against the two pumps (which run on their own goroutines).
func H_C20_Ws() {
	e := newWsEnv(true)
	w := e.w
	zzvrt.StartAccessLog()
	go func() { _ = w.WriteMessageToWebsocketConnection([]byte{2, 'a'}) }()
	switch zzvrt.Choice("other", 4) {
	case 0:
		go func() { w.CloseDataConnection(4001, "") }()
	case 1:
		go func() { _, _ = w.IsDataConnectionClosed() }()
	case 2:
		go func() { e.readCh <- readEvt{typ: websocket.BinaryMessage, data: []byte{1, 0, 0}} }()
	case 3:
		go func() { e.readCh <- readEvt{err: errors.New("EOF")} }()
	}
	zzvrt.WaitQuiescent()
	zzvrt.Cover("c20.end")
}

// H_C20_Ws_Native: the native twin for the race detector (real connection, all operations at once).
func H_C20_Ws_Native() {
	for it := 0; it < 20; it++ {
		p, err := newNativePair()
		if err != nil {
			continue
		}
		done := make(chan struct{}, 4)
		go func() { _ = p.w.WriteMessageToWebsocketConnection([]byte{2, 'a'}); done <- struct{}{} }()
		go func() { _, _ = p.w.IsDataConnectionClosed(); done <- struct{}{} }()
		go func() { _ = p.peer.WriteMessage(websocket.BinaryMessage, []byte{1, 0, 0}); done <- struct{}{} }()
		go func() { p.w.CloseDataConnection(4001, ""); done <- struct{}{} }()
		for i := 0; i < 4; i++ {
			<-done
		}
		p.cleanup()
	}
}
