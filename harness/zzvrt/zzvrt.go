//go:build verif

// Package zzvrt is the harness runtime. Inside the symbolic engine every function here
// is intercepted (the bodies below are never executed); compiled natively the same
// harness is fed from a replay tape (VERIF_TAPE = path of a JSON file) so that a solver
// counterexample runs as an ordinary Go test against the real code.
package zzvrt

import (
	"encoding/json"
	"fmt"
	"os"
	"reflect"
	"strconv"
	"sync"
	"time"
	"unicode/utf8"
	"unsafe"
)

type Draw struct {
	Name  string `json:"name"`
	Kind  string `json:"kind"`
	Value string `json:"value"` // decimal for ints, "true"/"false", hex for bytes/strings ("hex:..")
}

type tapeT struct {
	Draws []Draw `json:"draws"`
}

var (
	mu       sync.Mutex
	tape     *tapeT
	pos      int
	Failures []string
	Covered  = map[string]int{}
	Trace    []string
)

// AssumeFailed is the panic value used when the tape does not satisfy an assumption.
type AssumeFailed struct{ Msg string }

func load() {
	if tape != nil {
		return
	}
	tape = &tapeT{}
	p := os.Getenv("VERIF_TAPE")
	if p == "" {
		return
	}
	b, err := os.ReadFile(p)
	if err != nil {
		panic(err)
	}
	if err := json.Unmarshal(b, tape); err != nil {
		panic(err)
	}
}

// Reset rewinds the tape (for tests running several harnesses).
func Reset() {
	mu.Lock()
	defer mu.Unlock()
	tape = nil
	pos = 0
	Failures = nil
	Trace = nil
}

// Rewind restarts the tape for another attempt of a schedule-dependent replay.
func Rewind() {
	mu.Lock()
	defer mu.Unlock()
	pos = 0
	Failures = nil
	Trace = nil
}

func next(name, kind string) (string, bool) {
	mu.Lock()
	defer mu.Unlock()
	load()
	if pos >= len(tape.Draws) {
		return "", false
	}
	if os.Getenv("VERIF_TAPE_LENIENT") != "" {
		// lenient replay (race confirmation): take the next draw of that name, defaults when there is none
		for i := pos; i < len(tape.Draws); i++ {
			if tape.Draws[i].Name == name {
				pos = i + 1
				return tape.Draws[i].Value, true
			}
		}
		return "", false
	}
	d := tape.Draws[pos]
	pos++
	if d.Name != name {
		panic(AssumeFailed{fmt.Sprintf("tape mismatch: want %s got %s", name, d.Name)})
	}
	return d.Value, true
}

func Symbolic() bool { return false }

func Bool(name string) bool {
	v, ok := next(name, "bool")
	return ok && v == "true"
}

func Int(name string, lo, hi int) int {
	v, ok := next(name, "int")
	if !ok {
		return lo
	}
	n, _ := strconv.ParseInt(v, 10, 64)
	return int(n)
}

func Uint(name string) uint {
	v, ok := next(name, "uint")
	if !ok {
		return 0
	}
	n, _ := strconv.ParseUint(v, 10, 64)
	return uint(n)
}

func Byte(name string) byte {
	v, ok := next(name, "byte")
	if !ok {
		return 0
	}
	n, _ := strconv.ParseUint(v, 10, 8)
	return byte(n)
}

func unhex(v string) string {
	if len(v) >= 4 && v[:4] == "hex:" {
		b := make([]byte, 0, len(v)/2)
		for i := 4; i+1 < len(v); i += 2 {
			n, _ := strconv.ParseUint(v[i:i+2], 16, 8)
			b = append(b, byte(n))
		}
		return string(b)
	}
	return v
}

func Str(name string) string {
	v, _ := next(name, "str")
	return unhex(v)
}

func StrMax(name string, max int) string {
	v, _ := next(name, "str")
	return unhex(v)
}

func Bytes(name string) []byte {
	v, _ := next(name, "bytes")
	return []byte(unhex(v))
}

func Choice(name string, n int) int {
	v, ok := next(name, "choice")
	if !ok {
		return 0
	}
	k, _ := strconv.Atoi(v)
	return k
}

func Concrete(x int) int { return x }

func Assume(c bool) {
	if !c {
		panic(AssumeFailed{"assumption failed on tape"})
	}
}

func Assert(c bool, id string) {
	if !c {
		mu.Lock()
		Failures = append(Failures, id)
		mu.Unlock()
	}
}

func Fail(id string) { Assert(false, id) }

func Cover(id string) {
	mu.Lock()
	Covered[id]++
	mu.Unlock()
}

func Log(msg string) {
	mu.Lock()
	Trace = append(Trace, msg)
	mu.Unlock()
}
func LogInt(msg string, v int)    { Log(fmt.Sprintf("%s %d", msg, v)) }
func LogStr(msg string, v string) { Log(fmt.Sprintf("%s %q", msg, v)) }

// scheduling intrinsics: natively no-ops (replays of schedules use their own gates)
func Yield()            {}
func SetTimers(on bool) {}

// FireTimersUpTo: natively real time passes (durations are scaled down by the harness)
func FireTimersUpTo(d time.Duration) int { time.Sleep(d + 60*time.Millisecond); return 0 }
func FireTimers() int                    { time.Sleep(1200 * time.Millisecond); return 0 } // natively: let real time pass
// FireTickers: natively tickers run on real time (the harness twin calls the tick handler itself)
func FireTickers() int { return 0 }
func RunSpawned(match string) int {
	if d, ok := spawnWait[match]; ok {
		time.Sleep(d) // natively the goroutines run by themselves; give their timers time to elapse
	} else {
		time.Sleep(50 * time.Millisecond)
	}
	return 0
}

// RunImmediate: run every parked goroutine now (natively they run by themselves: a short pause, shorter than any delay
// the library sleeps before acting)
func RunImmediate() int { time.Sleep(80 * time.Millisecond); return 0 }

// Symbolic clock. Engine: time is a solver variable - time.After(d) expires at clock+d, Advance(dt) moves the clock by a
// (symbolic) dt >= 0, Now() is the clock. Natively: real time (the harness scales its durations down).
var clockStart = time.Now()

func SymbolicClock()          { clockStart = time.Now() }
func Advance(d time.Duration) { time.Sleep(d) }
func Now() time.Duration      { return time.Since(clockStart) }

// SetTimerLimit (engine only): time.After channels with a constant duration up to d fire by themselves, longer or
// symbolic ones never do unless the harness fires them (handshake timers stay pending, delayed closes elapse).
func SetTimerLimit(d time.Duration) {}

// RunAll: run every parked goroutine to its end, whatever it is called (with timers on their sleeps elapse at once).
// Natively the goroutines run by themselves: wait longer than the library's notification / close delays (up to 1 s).
func RunAll() int { time.Sleep(1300 * time.Millisecond); return 0 }

// RunSpawnedExcept: run every parked goroutine whose function name does not contain `match`
func RunSpawnedExcept(match string) int { time.Sleep(1300 * time.Millisecond); return 0 }
func DropSpawned(match string) int      { return 0 }
func NumParked(match string) int        { return 0 }
func WaitQuiescent()                    { time.Sleep(150 * time.Millisecond) } // natively: give the goroutines time to run
func NumBlocked(match string) int       { return 0 }
func NumLive(match string) int          { return 0 }

// LocksHeld: how many mutexes are still held after the call under test returned. Engine: the lockset of the calling
// goroutine. Natively: the sync.Mutex / sync.RWMutex fields of the struct obj points to that cannot be acquired.
func LocksHeld(obj interface{}) int {
	v := reflect.ValueOf(obj)
	if v.Kind() != reflect.Ptr || v.Elem().Kind() != reflect.Struct {
		return 0
	}
	v = v.Elem()
	n := 0
	for i := 0; i < v.NumField(); i++ {
		f := v.Field(i)
		if !f.CanAddr() {
			continue
		}
		p := unsafe.Pointer(f.UnsafeAddr())
		switch f.Type() {
		case reflect.TypeOf(sync.Mutex{}):
			m := (*sync.Mutex)(p)
			if m.TryLock() {
				m.Unlock()
			} else {
				n++
			}
		case reflect.TypeOf(sync.RWMutex{}):
			m := (*sync.RWMutex)(p)
			if m.TryLock() {
				m.Unlock()
			} else {
				n++
			}
		}
	}
	return n
}

func MutexHeld(m *sync.Mutex) bool {
	if m.TryLock() {
		m.Unlock()
		return false
	}
	return true
}
func ProvKind(b []byte) string             { return "" }
func ProvStr(b []byte, path string) string { return "<none>" }
func StartAccessLog()                      {}
func DumpAccesses(tag string)              {}

// Fact records a concrete fact (engine: aggregated over all paths; natively: trace line).
func Fact(tag string, a, b, c int) { Log(fmt.Sprintf("fact %s:%d:%d:%d", tag, a, b, c)) }

// JSONStr is only meaningful inside the engine (see harness helpers for the native twin).
func JSONStr(typ, path string) string { return "" }
func JSONState(typ, path string) int  { return 0 }

var spawnWait = map[string]time.Duration{"HandleShipHandshakeStateUpdate$1": 750 * time.Millisecond, "CloseConnection$1": 700 * time.Millisecond, "handleState$1": 1300 * time.Millisecond}

func field(p any, name string) reflect.Value {
	v := reflect.ValueOf(p)
	for v.Kind() == reflect.Ptr || v.Kind() == reflect.Interface {
		v = v.Elem()
	}
	return v.FieldByName(name)
}

// FieldStr / FieldInt / FieldBool read an (unexported) field of the struct p points to.
func FieldStr(p any, name string) string { return field(p, name).String() }
func FieldInt(p any, name string) int {
	f := field(p, name)
	if f.CanInt() {
		return int(f.Int())
	}
	return int(f.Uint())
}
func FieldBool(p any, name string) bool { return field(p, name).Bool() }

// eager boolean connectives (arguments are evaluated before the call: no branching in the engine)
func OrB(a, b bool) bool  { return a || b }
func AndB(a, b bool) bool { return a && b }
func NotB(a bool) bool    { return !a }
func IteInt(c bool, a, b int) int {
	if c {
		return a
	}
	return b
}

// BytesInRange: every byte of s lies in [lo,hi] and is none of the bytes of except.
func BytesInRange(s string, lo, hi byte, except string) bool {
	for i := 0; i < len(s); i++ {
		if s[i] < lo || s[i] > hi {
			return false
		}
		for k := 0; k < len(except); k++ {
			if s[i] == except[k] {
				return false
			}
		}
	}
	return true
}

func ValidUTF8(s string) bool { return utf8.ValidString(s) }

// Param: a harness parameter (engine: -param name=value; natively: the recorded draw, else the default).
func Param(name string, def int) int {
	v, ok := next(name, "param")
	if !ok {
		return def
	}
	n, _ := strconv.Atoi(v)
	return n
}
