//go:build verif

package mdns

import (
	"strings"

	"github.com/enbility/ship-go/api"
	"github.com/enbility/ship-go/zzvrt"
)

// H_C16_Shorten: shortenString(s, 32) is a prefix of s, at most 32 bytes, and valid UTF-8 whenever s is.
func H_C16_Shorten() {
	s := zzvrt.StrMax("s", 35)
	r := shortenString(s, 32)
	zzvrt.Assert(len(r) <= 32, "C16.shorten-too-long")
	zzvrt.Assert(strings.HasPrefix(s, r), "C16.shorten-not-a-prefix")
	zzvrt.Assert(zzvrt.OrB(len(s) > 32, r == s), "C16.shorten-changed-short-input")
	zzvrt.Assert(zzvrt.OrB(!zzvrt.ValidUTF8(s), zzvrt.ValidUTF8(r)), "C16.shorten-invalid-utf8")
	zzvrt.Cover("c16.end")
}

// H_C16_Txt: what the manager announces is what a ship-go browser reads back (one configuration string symbolic).
func H_C16_Txt() {
	which := zzvrt.Choice("which", cfgNone)
	cfg := symCfg(which, 6)
	auto := zzvrt.Bool("autoaccept")
	p := &vProvider{}
	m := cfg.manager(p)
	m.autoaccept = auto
	err := m.AnnounceMdnsEntry()
	zzvrt.Assert(err == nil && p.announces == 1, "C16.announce-failed")
	zzvrt.Assert(p.port == 4711 && p.name == "svc", "C16.announce-name-port")

	// browser side: another manager (different own SKI) parses the captured TXT record
	b := NewMDNS("the-browsers-own-ski", "", "", "", "", nil, "other", "svc2", 1, nil, MdnsProviderSelectionAll)
	elements := parseTxt(p.txt)
	b.processMdnsEntry(elements, "svc", "host", nil, p.port, false)
	wantSKI := cfg.ski
	e, ok := b.entries[wantSKI]
	zzvrt.Assert(ok, "C16.entry-missing")
	if ok {
		zzvrt.Assert(e.Ski == cfg.ski, "C16.ski-differs")
		zzvrt.Assert(e.Identifier == cfg.id, "C16.identifier-differs")
		zzvrt.Assert(e.Path == "/ship/", "C16.path-differs")
		zzvrt.Assert(e.Register == auto, "C16.register-differs")
		zzvrt.Assert(e.Brand == refShorten(cfg.brand, 32), "C16.brand-differs")
		zzvrt.Assert(e.Model == refShorten(cfg.model, 32), "C16.model-differs")
		zzvrt.Assert(e.Type == refShorten(cfg.typ, 32), "C16.type-differs")
		zzvrt.Assert(e.Serial == refShorten(cfg.serial, 32), "C16.serial-differs")
		zzvrt.Assert(len(e.Categories) == 1 && e.Categories[0] == api.DeviceCategoryTypeEnergyManagementSystem, "C16.categories-differ")
		zzvrt.Assert(e.Port == 4711, "C16.port-differs")
	}
	zzvrt.Cover("c16.end")
}

// H_C16_Cats: category lists and ports round-trip.
func H_C16_Cats() {
	cfg := baseCfg()
	n := zzvrt.Choice("ncat", 3)
	cfg.cats = nil
	for i := 0; i < n; i++ {
		cfg.cats = append(cfg.cats, api.DeviceCategoryType(zzvrt.Int("cat", 0, 99)))
	}
	p := &vProvider{}
	m := cfg.manager(p)
	m.port = zzvrt.Int("port", 0, 65535)
	_ = m.AnnounceMdnsEntry()
	b := NewMDNS("the-browsers-own-ski", "", "", "", "", nil, "other", "svc2", 1, nil, MdnsProviderSelectionAll)
	b.processMdnsEntry(parseTxt(p.txt), "svc", "host", nil, p.port, false)
	e, ok := b.entries[cfg.ski]
	zzvrt.Assert(ok, "C16.entry-missing")
	if ok {
		zzvrt.Assert(len(e.Categories) == len(cfg.cats), "C16.categories-count")
		for i := range cfg.cats {
			if i < len(e.Categories) {
				zzvrt.Assert(e.Categories[i] == cfg.cats[i], "C16.category-differs")
			}
		}
		zzvrt.Assert(e.Port == m.port, "C16.port-differs")
	}
	zzvrt.Cover("c16.end")
}

func stripSemi(s string) string { return strings.ReplaceAll(s, ";", "") }

// refQR: the reference printer. Every value has its ';' removed, so that splitting the text at ';' and each item at its
// first ':' yields exactly the fields below (unambiguous by construction); empty optionals are omitted.
func refQR(cfg vCfg) string {
	out := "SHIP;SKI:" + stripSemi(cfg.ski) + ";ID:" + stripSemi(cfg.id) + ";"
	opt := func(k, v string) string {
		v = refShorten(v, 32)
		if len(v) == 0 {
			return ""
		}
		return k + ":" + stripSemi(v) + ";"
	}
	out += opt("BRAND", cfg.brand) + opt("TYPE", cfg.typ) + opt("MODEL", cfg.model) + opt("SERIAL", cfg.serial)
	out += "CAT:2;"
	return out + "ENDSHIP;"
}

// H_C16_QR: the QR text equals the reference text (which parses back unambiguously into the configured fields).
func H_C16_QR() {
	which := zzvrt.Choice("which", cfgNone)
	cfg := symCfg(which, 6)
	p := &vProvider{}
	m := cfg.manager(p)
	q := m.QRCodeText()
	zzvrt.Assert(q == refQR(cfg), "C16.qr-text-differs-from-reference")
	// the text is well-formed for the reference grammar: no field value contains the separator
	body := strings.TrimSuffix(strings.TrimPrefix(q, "SHIP;"), "ENDSHIP;")
	nsemi := strings.Count(body, ";")
	want := 3
	for _, v := range []string{cfg.brand, cfg.typ, cfg.model, cfg.serial} {
		want += zzvrt.IteInt(len(v) > 0, 1, 0)
	}
	zzvrt.Assert(nsemi == want, "C16.qr-field-count")
	zzvrt.Cover("c16.end")
}

// H_C16_Seq: the announcement follows the configuration through every history of announce / unannounce / auto-accept
// changes: whenever the service is announced, the TXT record that is live at the provider reads back - through parseTxt and
// processMdnsEntry of a browser - as the manager's current auto-accept flag and its (fixed) descriptive data.
func c16Seq(nops int) {
	cfg := baseCfg()
	p := &vProvider{}
	m := cfg.manager(p)
	m.autoaccept = zzvrt.Bool("autoaccept0")
	want := m.autoaccept
	for i := 0; i < nops; i++ {
		switch zzvrt.Choice("op", 4) {
		case 0:
			_ = m.AnnounceMdnsEntry()
			zzvrt.Assert(p.live, "C16.seq-announce-did-not-reach-the-provider")
		case 1:
			m.UnannounceMdnsEntry()
			zzvrt.Assert(!p.live, "C16.seq-unannounce-did-not-reach-the-provider")
		case 2:
			want = true
			m.SetAutoAccept(true)
		case 3:
			want = false
			m.SetAutoAccept(false)
		}
		if p.live {
			b := NewMDNS("the-browsers-own-ski", "", "", "", "", nil, "other", "svc2", 1, nil, MdnsProviderSelectionAll)
			b.processMdnsEntry(parseTxt(p.txt), "svc", "host", nil, p.port, false)
			e, ok := b.entries[cfg.ski]
			zzvrt.Assert(ok, "C16.seq-entry-missing")
			if ok {
				zzvrt.Assert(e.Register == want, "C16.seq-announced-register-is-stale")
				zzvrt.Assert(e.Identifier == cfg.id && e.Brand == cfg.brand && e.Model == cfg.model && e.Type == cfg.typ && e.Serial == cfg.serial,
					"C16.seq-announced-data-differs")
				zzvrt.Assert(len(e.Categories) == len(cfg.cats), "C16.seq-categories-differ")
			}
		}
	}
	zzvrt.Cover("c16.end")
}

func H_C16_Seq3() { c16Seq(3) }
func H_C16_Seq4() { c16Seq(4) }
func H_C16_Seq5() { c16Seq(5) }

// H_C16_Fixed: closed configurations with values the symbolic queries reach only at larger bounds (blanks at either end, a
// blank at the truncation boundary, separators of the TXT / QR / category syntax inside values, 32 and 33 bytes). Everything is
// concrete here, the engine merely executes the real code; the same harness is what the native replay runs.
func H_C16_Fixed() {
	long := "Example Home Energy Systems and Co KG" // byte 32 is a blank: the truncated value ends in a blank
	vals := []string{" padded", "padded ", " both ", "a=b", "k:v", "x,y", "tab\tend\t", "0123456789012345678901234567890X", long, "Ünïcödé Wert"}
	which := zzvrt.Choice("which", cfgNone)
	k := zzvrt.Choice("value", len(vals))
	cfg := baseCfg()
	v := vals[k]
	switch which {
	case cfgSKI:
		zzvrt.Assume(k < 8) // SKI / identifier are not truncated; keep them short
		cfg.ski = v
	case cfgID:
		zzvrt.Assume(k < 8)
		cfg.id = v
	case cfgBrand:
		cfg.brand = v
	case cfgModel:
		cfg.model = v
	case cfgType:
		cfg.typ = v
	case cfgSerial:
		cfg.serial = v
	}
	p := &vProvider{}
	m := cfg.manager(p)
	_ = m.AnnounceMdnsEntry()
	b := NewMDNS("the-browsers-own-ski", "", "", "", "", nil, "other", "svc2", 1, nil, MdnsProviderSelectionAll)
	b.processMdnsEntry(parseTxt(p.txt), "svc", "host", nil, p.port, false)
	e, ok := b.entries[cfg.ski]
	zzvrt.Assert(ok, "C16.fixed-entry-missing")
	if ok {
		zzvrt.Assert(e.Ski == cfg.ski && e.Identifier == cfg.id, "C16.fixed-ski-or-identifier-differs")
		zzvrt.Assert(e.Brand == refShorten(cfg.brand, 32) && e.Model == refShorten(cfg.model, 32) && e.Type == refShorten(cfg.typ, 32) && e.Serial == refShorten(cfg.serial, 32),
			"C16.fixed-descriptive-value-differs")
	}
	zzvrt.Assert(m.QRCodeText() == refQR(cfg), "C16.fixed-qr-text-differs-from-reference")
	zzvrt.Cover("c16.end")
}
