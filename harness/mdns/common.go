//go:build verif

package mdns

import (
	"net"
	"strings"

	"github.com/enbility/ship-go/api"
	"github.com/enbility/ship-go/zzvrt"
)

// fake provider: captures what the manager announces
type vProvider struct {
	name      string
	port      int
	txt       []string
	announces int
	live      bool // announced and not unannounced since
}

func (p *vProvider) Start(autoReconnect bool, cb api.MdnsResolveCB) bool { return true }
func (p *vProvider) Shutdown()                                           {}
func (p *vProvider) Announce(serviceName string, port int, txt []string) error {
	p.name, p.port, p.txt = serviceName, port, txt
	p.announces++
	p.live = true
	return nil
}
func (p *vProvider) Unannounce() { p.live = false }

// fake report receiver
type vReport struct {
	reports int
	last    map[string]*api.MdnsEntry
}

func (r *vReport) ReportMdnsEntries(entries map[string]*api.MdnsEntry, newEntries bool) {
	r.reports++
	r.last = entries
}

const (
	cfgSKI = iota
	cfgID
	cfgBrand
	cfgModel
	cfgType
	cfgSerial
	cfgNone
)

type vCfg struct {
	ski, id, brand, model, typ, serial string
	cats                               []api.DeviceCategoryType
}

func baseCfg() vCfg {
	return vCfg{ski: "aabbccdd", id: "Ident-1", brand: "Brand", model: "Model", typ: "Type", serial: "S123",
		cats: []api.DeviceCategoryType{api.DeviceCategoryTypeEnergyManagementSystem}}
}

// symCfg: one configuration string symbolic (bounded), the others fixed.
func symCfg(which int, max int) vCfg {
	c := baseCfg()
	h := zzvrt.StrMax("cfg.value", max)
	switch which {
	case cfgSKI:
		c.ski = h
	case cfgID:
		c.id = h
	case cfgBrand:
		c.brand = h
	case cfgModel:
		c.model = h
	case cfgType:
		c.typ = h
	case cfgSerial:
		c.serial = h
	}
	return c
}

func (c vCfg) manager(p *vProvider) *MdnsManager {
	m := NewMDNS(c.ski, c.brand, c.model, c.typ, c.serial, c.cats, c.id, "svc", 4711, nil, MdnsProviderSelectionAll)
	m.mdnsProvider = p
	return m
}

func refShorten(s string, n int) string {
	if len(s) <= n {
		return s
	}
	return s[:n]
}

// reference QR parser: SHIP; (KEY:value;)* ENDSHIP;  split at ';', key up to the first ':'
type qrField struct{ k, v string }

func parseQR(q string) ([]qrField, bool) {
	if !strings.HasPrefix(q, "SHIP;") || !strings.HasSuffix(q, "ENDSHIP;") {
		return nil, false
	}
	body := q[len("SHIP;") : len(q)-len("ENDSHIP;")]
	var out []qrField
	for len(body) > 0 {
		i := strings.Index(body, ";")
		if i < 0 {
			return nil, false
		}
		item := body[:i]
		body = body[i+1:]
		j := strings.Index(item, ":")
		if j < 0 {
			return nil, false
		}
		out = append(out, qrField{item[:j], item[j+1:]})
	}
	return out, true
}

var _ = net.IPv4len
