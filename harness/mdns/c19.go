//go:build verif

package mdns

import (
	"errors"
	"net"
	"sync"

	"github.com/enbility/go-avahi"
	"github.com/enbility/ship-go/zzvrt"
)

// ---- fake Avahi daemon (avahi.ServerInterface) ----

type vGroup struct {
	avahi.EntryGroupInterface
	srv       *vAvahi
	txt       string
	committed bool
	freed     bool
}

func (g *vGroup) AddService(iface, protocol int32, flags uint32, name, serviceType, domain, host string, port uint16, txt [][]byte) error {
	if len(txt) > 0 {
		g.txt = string(txt[0])
	}
	return nil
}

func (g *vGroup) Commit() error {
	if !g.srv.up {
		return errors.New("daemon not reachable")
	}
	g.committed = true
	return nil
}

type vBrowser struct {
	avahi.ServiceBrowserInterface
	freed bool
}

type vAvahi struct {
	avahi.ServerInterface
	up             bool
	cb             avahi.EventCB
	setups         int
	shutdowns      int
	browsers       []*vBrowser
	groups         []*vGroup
	addCh, remCh   chan avahi.Service
	mu             sync.Mutex // go-avahi's server mutex: held while a signal is dispatched and while a browser is freed
	failBrowserNew int        // the next n ServiceBrowserNew calls fail although the daemon is reachable
	callsAfterEnd  int        // Setup / ServiceBrowserNew / EntryGroupNew after the application's Shutdown returned
	ended          bool       // application's Shutdown returned
}

func (s *vAvahi) Setup(cb avahi.EventCB) error {
	s.setups++
	if s.ended {
		s.callsAfterEnd++
	}
	if !s.up {
		return errors.New("daemon not reachable")
	}
	s.cb = cb
	return nil
}
func (s *vAvahi) Start()    {}
func (s *vAvahi) Shutdown() { s.shutdowns++ }
func (s *vAvahi) GetAPIVersion() (int32, error) {
	if !s.up {
		return 0, errors.New("daemon not reachable")
	}
	return 1, nil
}
func (s *vAvahi) ServiceBrowserNew(addChan, removeChan chan avahi.Service, iface, protocol int32, serviceType string, domain string, flags uint32) (avahi.ServiceBrowserInterface, error) {
	if s.ended {
		s.callsAfterEnd++
	}
	if !s.up {
		return nil, errors.New("daemon not reachable")
	}
	if s.failBrowserNew > 0 {
		s.failBrowserNew--
		return nil, errors.New("service browser could not be created")
	}
	s.addCh, s.remCh = addChan, removeChan
	b := &vBrowser{}
	s.browsers = append(s.browsers, b)
	return b, nil
}
func (s *vAvahi) ServiceBrowserFree(r avahi.ServiceBrowserInterface) {
	s.mu.Lock()
	if b, ok := r.(*vBrowser); ok {
		b.freed = true
	}
	s.mu.Unlock()
}

// dispatch: go-avahi's signal goroutine hands a browse result to the provider's channel with a blocking send while it
// holds the server mutex (server.go handleSignals); freeing the browser takes the same mutex, so nothing is in flight or
// dispatched once ServiceBrowserFree has returned
func (s *vAvahi) dispatch(add bool, v avahi.Service) {
	s.mu.Lock()
	defer s.mu.Unlock()
	if s.liveBrowsers() == 0 {
		return
	}
	if add {
		s.addCh <- v
	} else {
		s.remCh <- v
	}
}
func (s *vAvahi) EntryGroupNew() (avahi.EntryGroupInterface, error) {
	if s.ended {
		s.callsAfterEnd++
	}
	if !s.up {
		return nil, errors.New("daemon not reachable")
	}
	g := &vGroup{srv: s}
	s.groups = append(s.groups, g)
	return g, nil
}
func (s *vAvahi) EntryGroupFree(r avahi.EntryGroupInterface) {
	if g, ok := r.(*vGroup); ok {
		g.freed = true
	}
}
func (s *vAvahi) ResolveService(iface, protocol int32, name, serviceType, domain string, aprotocol int32, flags uint32) (avahi.Service, error) {
	if !s.up {
		return avahi.Service{}, errors.New("daemon not reachable")
	}
	return avahi.Service{Name: name, Type: serviceType, Domain: domain, Host: "host", Address: "192.168.1.2", Port: 4711,
		Txt: [][]byte{[]byte("txtvers=1"), []byte("ski=abc")}}, nil
}

func (s *vAvahi) liveBrowsers() int {
	n := 0
	for _, b := range s.browsers {
		if !b.freed {
			n++
		}
	}
	return n
}

// liveGroupTxt: ("", 0) if no committed un-freed group exists, else its txt and the count
func (s *vAvahi) liveGroups() (string, int) {
	txt, n := "", 0
	for _, g := range s.groups {
		if g.committed && !g.freed {
			txt = g.txt
			n++
		}
	}
	return txt, n
}

type c19Env struct {
	p        *AvahiProvider
	srv      *vAvahi
	resolved int
}

func newC19() *c19Env {
	e := &c19Env{srv: &vAvahi{up: true}}
	e.p = NewAvahiProvider([]int32{avahi.InterfaceUnspec})
	e.p.avServer = e.srv
	return e
}

// vParseIP replaces net.ParseIP in the engine: the resolved address of the fake daemon is usable
func vParseIP(s string) net.IP { return net.IP{192, 168, 1, 2} }

func (e *c19Env) cb(elements map[string]string, name, host string, addresses []net.IP, port int, remove bool) {
	e.resolved++
}

const (
	c19Announce2 = iota
	c19Unannounce
	c19Shutdown
	c19Nothing
)

// H_C19_Restart: start + announce(v1); the daemon disconnects; during the outage the application performs one
// operation (announce v2 / unannounce / shutdown / nothing); the daemon comes back after `retries` failed attempts;
// at quiescence the provider browses again and announces exactly what is active, with the latest TXT data.
func H_C19_Restart() {
	zzvrt.SetTimers(false)
	e := newC19()
	p, srv := e.p, e.srv
	ok := p.Start(true, e.cb)
	zzvrt.Assert(ok, "C19.start-failed")
	_ = p.Announce("svc", 4711, []string{"v=1"})
	op := zzvrt.Choice("outage.op", 4)
	retries := zzvrt.Choice("failed.retries", 2)

	// daemon goes away (everything registered with it is lost); go-avahi delivers the event on its own goroutine
	srv.up = false
	for _, b := range srv.browsers {
		b.freed = true
	}
	for _, g := range srv.groups {
		g.freed = true
	}
	go srv.cb(avahi.Disconnected)
	// the application, concurrently
	appDone := false
	go func() {
		switch op {
		case c19Announce2:
			_ = p.Announce("svc", 4711, []string{"v=2"})
		case c19Unannounce:
			p.Unannounce()
		case c19Shutdown:
			p.Shutdown()
			srv.ended = true
		}
		appDone = true
	}()
	zzvrt.WaitQuiescent()
	for i := 0; i < retries; i++ {
		zzvrt.FireTimers() // a retry while the daemon is still down
		zzvrt.WaitQuiescent()
	}
	srv.up = true
	// the daemon is back, but a reconnect attempt may still fail half way: Setup succeeds, creating the browser does not
	if zzvrt.Bool("browser.fails.once") {
		srv.failBrowserNew = 1
	}
	zzvrt.FireTimers()
	zzvrt.WaitQuiescent()
	zzvrt.FireTimers()
	zzvrt.WaitQuiescent()
	zzvrt.FireTimers()
	zzvrt.WaitQuiescent()

	zzvrt.Assert(appDone, "C19.application-call-blocked")
	txt, groups := srv.liveGroups()
	switch op {
	case c19Shutdown:
		zzvrt.Assert(srv.callsAfterEnd == 0, "C19.restarted-after-manual-shutdown")
		zzvrt.Assert(groups == 0, "C19.announced-after-manual-shutdown")
		zzvrt.Assert(srv.liveBrowsers() == 0, "C19.browsing-after-manual-shutdown")
	case c19Unannounce:
		zzvrt.Assert(srv.liveBrowsers() == 1, "C19.browser-count-after-reconnect")
		zzvrt.Assert(groups == 0, "C19.unannounced-service-announced-again")
	case c19Announce2:
		zzvrt.Assert(srv.liveBrowsers() == 1, "C19.browser-count-after-reconnect")
		zzvrt.Assert(groups == 1, "C19.announcement-lost-or-duplicated")
		zzvrt.Assert(groups != 1 || txt == "v=2", "C19.stale-txt-announced")
	case c19Nothing:
		zzvrt.Assert(srv.liveBrowsers() == 1, "C19.browser-count-after-reconnect")
		zzvrt.Assert(groups == 1 && txt == "v=1", "C19.announcement-lost-or-duplicated")
	}
	// services resolved afterwards are reported again
	if op != c19Shutdown && srv.addCh != nil {
		before := e.resolved
		go srv.dispatch(true, avahi.Service{Name: "peer", Interface: 1})
		zzvrt.WaitQuiescent()
		zzvrt.Assert(e.resolved == before+1, "C19.resolved-service-not-reported")
	}
	zzvrt.Cover("c19.end")
}

// H_C19_Shutdown: Shutdown (also twice, concurrently, with the listener running) never deadlocks or panics.
func H_C19_Shutdown() {
	zzvrt.SetTimers(false)
	e := newC19()
	p, srv := e.p, e.srv
	_ = p.Start(true, e.cb)
	_ = p.Announce("svc", 4711, []string{"v=1"})
	done := 0
	// the daemon may deliver a browse result (new or removed service) at any moment, also while Shutdown is in progress
	switch zzvrt.Choice("event.during.shutdown", 3) {
	case 1:
		go srv.dispatch(true, avahi.Service{Name: "peer", Interface: 1})
	case 2:
		go srv.dispatch(false, avahi.Service{Name: "peer", Interface: 1})
	}
	go func() { p.Shutdown(); done++ }()
	if zzvrt.Bool("second.shutdown") {
		go func() { p.Shutdown(); done++ }()
	} else {
		done++
	}
	zzvrt.WaitQuiescent()
	zzvrt.Assert(done == 2, "C19.shutdown-blocked")
	_, groups := srv.liveGroups()
	zzvrt.Assert(groups == 0, "C19.announced-after-manual-shutdown")
	zzvrt.Cover("c19.end")
}
