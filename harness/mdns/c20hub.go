//go:build verif

package mdns

import (
	"crypto/tls"
	"errors"
	"net"
	"time"

	"github.com/enbility/ship-go/api"
	"github.com/enbility/ship-go/hub"
	"github.com/enbility/ship-go/zzvrt"
)

// application fake for a real hub
type vApp struct{}

func (vApp) RemoteSKIConnected(ski string)    {}
func (vApp) RemoteSKIDisconnected(ski string) {}
func (vApp) SetupRemoteDevice(ski string, w api.ShipConnectionDataWriterInterface) api.ShipConnectionDataReaderInterface {
	return nil
}
func (vApp) VisibleRemoteServicesUpdated(entries []api.RemoteService)                 {}
func (vApp) ServiceShipIDUpdate(ski string, shipdID string)                           {}
func (vApp) ServicePairingDetailUpdate(ski string, detail *api.ConnectionStateDetail) {}
func (vApp) AllowWaitingForTrust(ski string) bool                                     { return false }

// vNoDial replaces Hub.connectFoundService in the engine: the dial "succeeds" without creating a connection
// (a failing dial makes the hub re-announce and retry forever, by design)
func vNoDial(h *hub.Hub, remoteService *api.ServiceDetails, host, port, path string) error {
	noDialCalls++
	if noDialCalls == 1 {
		return errors.New("host name does not resolve") // the hub falls back to the address list (and sorts it)
	}
	return nil
}

var noDialCalls int

// H_C20_MdnsHub: the real manager reporting to a real hub. The provider goroutine keeps processing resolver events
// while the hub's report / delayed dial goroutines work on the snapshot they were given: the snapshot must not share
// memory with the manager's registry (the hub sorts the addresses of an entry in place).
func H_C20_MdnsHub() {
	m := NewMDNS(c17Local, "b", "m", "t", "s", nil, "id", "svc", 1, nil, MdnsProviderSelectionAll)
	m.mdnsProvider = &vProvider{}
	local := api.NewServiceDetails(c17Local)
	h := hub.NewHub(vApp{}, m, 4711, tls.Certificate{}, local)
	h.RegisterRemoteSKI("ski-one") // hub not started: simply trusted
	m.report = h
	ip6 := net.IP{0xfd, 0, 0, 0, 0, 0, 0, 0, 0, 0, 0, 0, 0, 0, 0, 1}
	ip4 := net.IP{192, 168, 1, 2}
	ip4b := net.IP{192, 168, 1, 3}
	noDialCalls = 0
	host := "h1" // engine: the host-name attempt fails (vNoDial), the hub falls back to the sorted address list
	if !zzvrt.Symbolic() {
		host = "" // native: no host name, the hub goes straight to the address list (no DNS lookup in the sandbox)
	}
	zzvrt.StartAccessLog()
	m.processMdnsEntry(c17Elements("ski-one"), "n1", host, []net.IP{ip6, ip4}, 4712, false)
	if !zzvrt.Symbolic() {
		// native: resolver events keep arriving while the hub's delayed dial attempt (0..3 s) is on its way
		for t := 0; t < 1600; t++ {
			time.Sleep(2 * time.Millisecond)
			m.processMdnsEntry(c17Elements("ski-one"), "n1", host, []net.IP{ip4}, 4712, false)
		}
	}
	// a further resolver event for the same service (Avahi reports one per address) while the hub works
	m.processMdnsEntry(c17Elements("ski-one"), "n1", host, []net.IP{ip4b}, 4712, false)
	zzvrt.WaitQuiescent()
	if !zzvrt.Symbolic() {
		time.Sleep(200 * time.Millisecond)
	}
	zzvrt.Cover("c20.end")
}
