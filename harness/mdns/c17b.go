//go:build verif

package mdns

import (
	"sync"
	"time"

	"github.com/enbility/ship-go/api"
	"github.com/enbility/ship-go/zzvrt"
)

type vOrderReport struct {
	mu      sync.Mutex
	lastLen int
	reports int
}

// the receiver (the hub) takes time: it hands the list to the application as its last step
func (r *vOrderReport) ReportMdnsEntries(entries map[string]*api.MdnsEntry, newEntries bool) {
	r.mu.Lock()
	r.reports++
	first := r.reports == 1
	r.mu.Unlock()
	n := len(entries)
	zzvrt.Yield() // a scheduling point inside the delivery: deliveries of different reports may overlap here
	if !zzvrt.Symbolic() && first {
		time.Sleep(20 * time.Millisecond) // native replay: the first delivery is the slow one
	}
	r.mu.Lock()
	r.lastLen = n
	r.mu.Unlock()
}

func c17Elements(ski string) map[string]string {
	return map[string]string{"txtvers": "1", "id": "i", "path": "/ship/", "ski": ski, "register": "true"}
}

// H_C17_Order: two changing resolver events, every scheduling of the asynchronous reports:
// the last list delivered must be the final set.
func H_C17_Order() {
	m := NewMDNS(c17Local, "", "", "", "", nil, "id", "svc", 1, nil, MdnsProviderSelectionAll)
	m.mdnsProvider = &vProvider{}
	rep := &vOrderReport{}
	m.report = rep
	m.processMdnsEntry(c17Elements("ski-one"), "n1", "h1", nil, 1, false)
	if !zzvrt.Symbolic() {
		// native replay: let the first report get in flight before the next event arrives
		for i := 0; i < 100; i++ {
			rep.mu.Lock()
			n := rep.reports
			rep.mu.Unlock()
			if n >= 1 {
				break
			}
			time.Sleep(time.Millisecond)
		}
	}
	m.processMdnsEntry(c17Elements("ski-two"), "n2", "h2", nil, 2, false)
	zzvrt.WaitQuiescent()
	rep.mu.Lock()
	reports, lastLen := rep.reports, rep.lastLen
	rep.mu.Unlock()
	zzvrt.Assert(reports >= 1, "C17.no-report")
	zzvrt.Assert(lastLen == 2, "C17.older-snapshot-delivered-last")
	zzvrt.Cover("c17.end")
}

// H_C17_OrderReq: a program of three operations from {add one, add two, remove one, the hub asks for the known entries
// (RequestMdnsEntries)}, every scheduling of the asynchronous report deliveries: once everything has settled the last list
// the application received is the final set (an application that never received a list still assumes the empty set).
func H_C17_OrderReq() {
	m := NewMDNS(c17Local, "", "", "", "", nil, "id", "svc", 1, nil, MdnsProviderSelectionAll)
	m.mdnsProvider = &vProvider{}
	rep := &vOrderReport{}
	m.report = rep
	for i := 0; i < 3; i++ {
		switch zzvrt.Choice("op", 4) {
		case 0:
			m.processMdnsEntry(c17Elements("ski-one"), "n1", "h1", nil, 1, false)
		case 1:
			m.processMdnsEntry(c17Elements("ski-two"), "n2", "h2", nil, 2, false)
		case 2:
			m.processMdnsEntry(c17Elements("ski-one"), "n1", "h1", nil, 1, true)
		case 3:
			m.RequestMdnsEntries()
		}
		if !zzvrt.Symbolic() {
			time.Sleep(2 * time.Millisecond)
		}
	}
	zzvrt.WaitQuiescent()
	m.mux.Lock()
	final := len(m.entries)
	m.mux.Unlock()
	rep.mu.Lock()
	reports, lastLen := rep.reports, rep.lastLen
	rep.mu.Unlock()
	if reports == 0 {
		lastLen = 0
	}
	zzvrt.Assert(lastLen == final, "C17.last-delivered-list-differs-from-the-final-set")
	zzvrt.Cover("c17.end")
}
