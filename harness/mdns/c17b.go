//go:build verif

package mdns

import (
	"github.com/enbility/ship-go/api"
	"github.com/enbility/ship-go/zzvrt"
)

type vOrderReport struct {
	lastLen int
	reports int
}

func (r *vOrderReport) ReportMdnsEntries(entries map[string]*api.MdnsEntry, newEntries bool) {
	r.reports++
	r.lastLen = len(entries)
}

func c17Elements(ski string) map[string]string {
	return map[string]string{"txtvers": "1", "id": "i", "path": "/ship/", "ski": ski, "register": "true"}
}

// H_C17_Order: two changing resolver events, every scheduling of the asynchronous reports:
// the last list delivered must be the final set.
func H_C17_Order() {
	m := NewMDNS(c17Local, "", "", "", "", nil, "id", "svc", 1, nil, MdnsProviderSelectionAll)
	m.mdnsProvider = &vProvider{}
	rep := &vOrderReport{}
	m.report = rep
	m.processMdnsEntry(c17Elements("ski-one"), "n1", "h1", nil, 1, false)
	m.processMdnsEntry(c17Elements("ski-two"), "n2", "h2", nil, 2, false)
	zzvrt.WaitQuiescent()
	zzvrt.Assert(rep.reports >= 1, "C17.no-report")
	zzvrt.Assert(rep.lastLen == 2, "C17.older-snapshot-delivered-last")
	zzvrt.Cover("c17.end")
}
