//go:build verif

package mdns

import (
	"sync"
	"time"

	"github.com/enbility/ship-go/api"
	"github.com/enbility/ship-go/zzvrt"
)

type vOrderReport struct {
	mu      sync.Mutex
	lastLen int
	reports int
}

// the receiver (the hub) takes time: it hands the list to the application as its last step
func (r *vOrderReport) ReportMdnsEntries(entries map[string]*api.MdnsEntry, newEntries bool) {
	r.mu.Lock()
	r.reports++
	first := r.reports == 1
	r.mu.Unlock()
	n := len(entries)
	zzvrt.Yield() // a scheduling point inside the delivery: deliveries of different reports may overlap here
	if !zzvrt.Symbolic() && first {
		time.Sleep(20 * time.Millisecond) // native replay: the first delivery is the slow one
	}
	r.mu.Lock()
	r.lastLen = n
	r.mu.Unlock()
}

func c17Elements(ski string) map[string]string {
	return map[string]string{"txtvers": "1", "id": "i", "path": "/ship/", "ski": ski, "register": "true"}
}

// H_C17_Order: two changing resolver events, every scheduling of the asynchronous reports:
// the last list delivered must be the final set.
func H_C17_Order() {
	m := NewMDNS(c17Local, "", "", "", "", nil, "id", "svc", 1, nil, MdnsProviderSelectionAll)
	m.mdnsProvider = &vProvider{}
	rep := &vOrderReport{}
	m.report = rep
	m.processMdnsEntry(c17Elements("ski-one"), "n1", "h1", nil, 1, false)
	if !zzvrt.Symbolic() {
		// native replay: let the first report get in flight before the next event arrives
		for i := 0; i < 100; i++ {
			rep.mu.Lock()
			n := rep.reports
			rep.mu.Unlock()
			if n >= 1 {
				break
			}
			time.Sleep(time.Millisecond)
		}
	}
	m.processMdnsEntry(c17Elements("ski-two"), "n2", "h2", nil, 2, false)
	zzvrt.WaitQuiescent()
	rep.mu.Lock()
	reports, lastLen := rep.reports, rep.lastLen
	rep.mu.Unlock()
	zzvrt.Assert(reports >= 1, "C17.no-report")
	zzvrt.Assert(lastLen == 2, "C17.older-snapshot-delivered-last")
	zzvrt.Cover("c17.end")
}
