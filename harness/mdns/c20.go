//go:build verif

package mdns

import (
	"github.com/enbility/ship-go/zzvrt"
)

const (
	m20Resolve = iota
	m20Announce
	m20Unannounce
	m20SetAuto
	m20Request
	m20QR
	m20Count
)

func m20Op(m *MdnsManager, op int) {
	switch op {
	case m20Resolve:
		m.processMdnsEntry(c17Elements("ski-one"), "n1", "h1", nil, 1, zzvrt.Bool("remove"))
	case m20Announce:
		_ = m.AnnounceMdnsEntry()
	case m20Unannounce:
		m.UnannounceMdnsEntry()
	case m20SetAuto:
		m.SetAutoAccept(zzvrt.Bool("auto"))
	case m20Request:
		m.RequestMdnsEntries()
	case m20QR:
		_ = m.QRCodeText()
	}
}

// H_C20_Mdns: the resolver callback (provider goroutine) against the manager's API (application / hub goroutines).
func H_C20_Mdns() {
	m := NewMDNS(c17Local, "b", "m", "t", "s", nil, "id", "svc", 1, nil, MdnsProviderSelectionAll)
	m.mdnsProvider = &vProvider{}
	m.report = &vOrderReport{}
	a := zzvrt.Choice("op.a", m20Count)
	b := zzvrt.Choice("op.b", m20Count)
	if b < a || (a == m20Resolve && b == m20Resolve) {
		zzvrt.Assume(false)
	}
	zzvrt.StartAccessLog()
	go func() { m20Op(m, a) }()
	m20Op(m, b)
	zzvrt.WaitQuiescent()
	zzvrt.Cover("c20.end")
}
