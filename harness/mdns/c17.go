//go:build verif

package mdns

import (
	"net"

	"github.com/enbility/ship-go/api"
	"github.com/enbility/ship-go/zzvrt"
)

const c17Local = "local-ski"

// address tokens: distinct net.IP objects; To4 / IsLinkLocalUnicast / String are uninterpreted per token
func c17Tokens() []net.IP {
	toks := []net.IP{{1}, {2}, {3}}
	zzvrt.Assume(toks[0].String() != toks[1].String())
	zzvrt.Assume(toks[0].String() != toks[2].String())
	zzvrt.Assume(toks[1].String() != toks[2].String())
	return toks
}

func usable(ip net.IP) bool { return !(ip.To4() == nil && ip.IsLinkLocalUnicast()) }

func hasAddr(list []net.IP, ip net.IP) bool {
	for _, x := range list {
		if x.String() == ip.String() {
			return true
		}
	}
	return false
}

// H_C17_Step: one resolver event against an arbitrary known-services map; post-map must equal the reference.
func H_C17_Step() {
	toks := c17Tokens()
	p := &vProvider{}
	m := NewMDNS(c17Local, "", "", "", "", nil, "id", "svc", 1, nil, MdnsProviderSelectionAll)
	m.mdnsProvider = p
	rep := &vReport{}
	if zzvrt.Bool("has.report") {
		m.report = rep
	}
	// pre-map: 0..2 entries with distinct keys different from the local SKI; usable, duplicate-free address lists
	k1, k2 := "ski-one", "ski-two"
	n := zzvrt.Choice("pre.entries", 3)
	var pre1, pre2 []net.IP
	if n >= 1 {
		na := zzvrt.Choice("pre.addrs1", 3)
		for i := 0; i < na; i++ {
			zzvrt.Assume(usable(toks[i]))
			pre1 = append(pre1, toks[i])
		}
		m.entries[k1] = &api.MdnsEntry{Ski: k1, Name: "n1", Identifier: "i1", Path: "/p1", Addresses: append([]net.IP{}, pre1...)}
	}
	if n >= 2 {
		if zzvrt.Bool("pre.addr2") {
			zzvrt.Assume(usable(toks[2]))
			pre2 = append(pre2, toks[2])
		}
		m.entries[k2] = &api.MdnsEntry{Ski: k2, Name: "n2", Identifier: "i2", Path: "/p2", Addresses: append([]net.IP{}, pre2...)}
	}
	// the event
	elements := map[string]string{}
	var evSki string
	switch zzvrt.Choice("ev.ski", 4) {
	case 0:
		evSki = k1
	case 1:
		evSki = k2
	case 2:
		evSki = c17Local
	case 3:
		evSki = "ski-new"
	}
	has := [5]bool{zzvrt.Bool("ev.has.txtvers"), zzvrt.Bool("ev.has.id"), zzvrt.Bool("ev.has.path"), zzvrt.Bool("ev.has.ski"), zzvrt.Bool("ev.has.register")}
	txtvers := zzvrt.Str("ev.txtvers")
	register := zzvrt.Str("ev.register")
	if has[0] {
		elements["txtvers"] = txtvers
	}
	if has[1] {
		elements["id"] = "ident"
	}
	if has[2] {
		elements["path"] = "/ship/"
	}
	if has[3] {
		elements["ski"] = evSki
	}
	if has[4] {
		elements["register"] = register
	}
	elements["brand"] = "brand"
	var addrs []net.IP
	na := zzvrt.Choice("ev.addrs", 3)
	for i := 0; i < na; i++ {
		addrs = append(addrs, toks[zzvrt.Choice("ev.addr", 3)])
	}
	remove := zzvrt.Bool("ev.remove")
	port := zzvrt.Int("ev.port", -1, 65535)

	m.processMdnsEntry(elements, "name", "host", addrs, port, remove)

	// ---- reference ----
	valid := has[0] && has[1] && has[2] && has[3] && has[4] && txtvers == "1" && evSki != c17Local && (register == "true" || register == "false")
	_, known1 := m.entries[k1]
	_, known2 := m.entries[k2]
	wasKnown := (evSki == k1 && n >= 1) || (evSki == k2 && n >= 2)
	zzvrt.RunSpawned("") // run whatever goroutine the event spawned (the asynchronous report)
	reports := rep.reports
	var want1, want2 []net.IP = pre1, pre2
	exp1, exp2 := n >= 1, n >= 2
	expNew := false
	changed := false
	var wantNew []net.IP
	if valid {
		if remove && wasKnown {
			changed = true
			if evSki == k1 {
				exp1 = false
			} else {
				exp2 = false
			}
		} else if !remove && wasKnown {
			cur := pre1
			if evSki == k2 {
				cur = pre2
			}
			for _, a := range addrs {
				if usable(a) && !hasAddr(cur, a) {
					cur = append(cur, a)
					changed = true
				}
			}
			if evSki == k1 {
				want1 = cur
			} else {
				want2 = cur
			}
		} else if !remove && !wasKnown {
			changed = true
			expNew = true
			for _, a := range addrs {
				if usable(a) && !hasAddr(wantNew, a) {
					wantNew = append(wantNew, a)
				}
			}
		}
	}
	if expNew && evSki == k1 {
		exp1 = true
	}
	if expNew && evSki == k2 {
		exp2 = true
	}
	zzvrt.Assert(known1 == exp1, "C17.entry1-presence")
	zzvrt.Assert(known2 == exp2, "C17.entry2-presence")
	if exp1 && known1 && !(expNew && evSki == k1) {
		c17SameAddrs(m.entries[k1].Addresses, want1, "C17.entry1-addresses")
		zzvrt.Assert(m.entries[k1].Identifier == "i1" && m.entries[k1].Path == "/p1", "C17.entry1-fields-changed")
	}
	if exp2 && known2 && !(expNew && evSki == k2) {
		c17SameAddrs(m.entries[k2].Addresses, want2, "C17.entry2-addresses")
	}
	if expNew && evSki == k1 {
		exp1 = true
	}
	if expNew && evSki == k2 {
		exp2 = true
	}
	eNew, gotNew := m.entries[evSki]
	if evSki == "ski-new" {
		zzvrt.Assert(gotNew == expNew, "C17.new-entry-presence")
	}
	if gotNew && expNew {
		c17SameAddrs(eNew.Addresses, wantNew, "C17.new-entry-addresses")
		zzvrt.Assert(eNew.Ski == evSki && eNew.Identifier == "ident" && eNew.Path == "/ship/" && eNew.Register == (register == "true") && eNew.Port == port, "C17.new-entry-fields")
	}
	_, gotLocal := m.entries[c17Local]
	zzvrt.Assert(!gotLocal, "C17.own-service-listed")
	wantReports := 0
	if changed && m.report != nil {
		wantReports = 1
	}
	zzvrt.Assert(reports == wantReports, "C17.report-count")
	zzvrt.Cover("c17.end")
}

func c17SameAddrs(got, want []net.IP, id string) {
	zzvrt.Assert(len(got) == len(want), id)
	for i := range want {
		if i < len(got) {
			zzvrt.Assert(got[i].String() == want[i].String(), id)
		}
	}
}

// H_C08_Mdns: arbitrary resolver input never panics (implicit runtime checks are the assertions).
func H_C08_Mdns() {
	m := NewMDNS(c17Local, "", "", "", "", nil, "id", "svc", 1, nil, MdnsProviderSelectionAll)
	if zzvrt.Bool("has.report") {
		m.report = &vReport{}
	}
	if zzvrt.Bool("pre.entry") {
		m.entries["k"] = &api.MdnsEntry{Ski: "k"}
	}
	var txt []string
	nt := zzvrt.Choice("txt.items", 4)
	for i := 0; i < nt; i++ {
		txt = append(txt, zzvrt.Str("txt.item"))
	}
	var elements map[string]string
	if zzvrt.Bool("elements.nonnil") {
		elements = parseTxt(txt)
	}
	if zzvrt.Bool("elements.valid") {
		// a complete, valid SHIP record (out of reach of three short TXT items): for a stored service, for one the manager
		// has never seen (also as a removal: a goodbye for an unknown service), and for the local SKI
		ski := []string{"k", "never-seen", c17Local}[zzvrt.Choice("valid.ski", 3)]
		reg := []string{"true", "false", "maybe"}[zzvrt.Choice("valid.register", 3)]
		elements = map[string]string{"txtvers": "1", "id": "i", "path": "/ship/", "ski": ski, "register": reg}
	}
	var addrs []net.IP
	na := zzvrt.Choice("addrs", 3)
	for i := 0; i < na; i++ {
		if zzvrt.Bool("addr.nil") {
			addrs = append(addrs, nil)
		} else {
			addrs = append(addrs, net.IP{byte(i)})
		}
	}
	m.processMdnsEntry(elements, zzvrt.Str("name"), zzvrt.Str("host"), addrs, zzvrt.Int("port", -70000, 70000), zzvrt.Bool("remove"))
	zzvrt.Cover("c08.mdns.end")
}
