//go:build verif

package ship

import (
	"encoding/json"

	"github.com/enbility/ship-go/model"
	"github.com/enbility/ship-go/zzvrt"
)

// ---- oracle data: SHIP 1.0.1 state graph (DESIGN.md appendix A) ----

func isTerminal(s int) bool { return s == 15 || s == 16 || s == 17 || s == 39 }

// states that express local trust: "ready" sub-states of hello and everything after hello-ok
func isTrusted(s int) bool {
	switch s {
	case 7, 8, 13, 18, 19, 20, 21, 22, 24, 25, 26, 27, 31, 36, 37, 38:
		return true
	}
	return false
}

// "progress" = anything but the abort / terminal family
func isProgress(s int) bool {
	switch s {
	case 14, 15, 16, 17, 39:
		return false
	}
	return true
}

func isUnused(s int) bool {
	switch s {
	case 9, 12, 23, 28, 29, 30, 32, 33, 34, 35:
		return true
	}
	return s < 0 || s > 39
}

func roleStateOK(client bool, s int) bool {
	if isUnused(s) {
		return false
	}
	switch s {
	case 1, 2, 3, 19, 22, 24:
		return client
	case 4, 5, 10, 11, 18, 20, 21, 25:
		return !client // (a client never takes the pending branch: it initiated the connection)
	}
	return true
}

func edgeOK(client bool, a, b int) bool {
	if a == b {
		return true // stutter
	}
	if !roleStateOK(client, b) {
		return false
	}
	if b == 39 {
		return true // an error report is possible from every state (the property only forbids progress after a terminal outcome)
	}
	switch a {
	case 0:
		return (client && b == 1) || (!client && b == 4)
	case 1:
		return b == 2
	case 2:
		return b == 3
	case 3, 5:
		return b == 6
	case 4:
		return b == 5
	case 6:
		return b == 7 || b == 10
	case 7:
		return b == 8 || b == 14
	case 8:
		return b == 13 || b == 14 || b == 16 || b == 17
	case 10:
		return b == 11
	case 11:
		return b == 7 || b == 14 || b == 16
	case 14:
		return b == 15
	case 13:
		return (client && b == 19) || (!client && b == 18)
	case 18:
		return b == 20
	case 20:
		return b == 21
	case 21:
		return b == 25
	case 19:
		return b == 22
	case 22:
		return b == 24
	case 24, 25:
		return b == 26
	case 26:
		return b == 27
	case 27:
		return b == 31
	case 31:
		return b == 36
	case 36:
		return b == 37
	case 37:
		return b == 38
	}
	return false
}

// states in which a connection rests between two events (the others are passed through inside one handler)
func isRest(s int) bool {
	switch s {
	case 0, 2, 4, 8, 11, 15, 16, 17, 20, 21, 22, 27, 36, 38, 39:
		return true
	}
	return false
}

// ---- one step from an arbitrary invariant-satisfying pre-state ----

type stepCtx struct {
	e          *vEnv
	client     bool
	pre        int
	preGranted bool
	preClosed  bool
	preReader  bool
	preID      string
	preBuf     [][]byte
	event      int
	msg        []byte
	preTimer   bool
}

// inv: the representation invariant of a connection between two events.
// asserted (ids inv.*) on the post-state, assumed on the pre-state: 1-induction.
func (x *stepCtx) invHolds(s int, granted, closed, transportClosed, hasReader, timer bool, buflen int) bool {
	ok := roleStateOK(x.client, s) && isRest(s)
	ok = ok && (!isTrusted(s) || granted)
	ok = ok && (!hasReader || granted)
	ok = ok && (!hasReader || s == 38 || s == 39)
	ok = ok && (s != 38 || hasReader)
	ok = ok && (!hasReader || buflen == 0)
	ok = ok && (!isTerminal(s) || (closed && transportClosed))
	ok = ok && (!isTerminal(s) || !timer)
	ok = ok && (s != 38 || !timer)
	ok = ok && (!closed || transportClosed)
	ok = ok && (!closed || !timer)
	ok = ok && (s != 0 || (!closed && !timer && !transportClosed))
	return ok
}

func newStep(maxBuf int, events []int, freeOracles bool, maxFail int) *stepCtx {
	x := &stepCtx{}
	// the thorough tier raises the data bounds through engine parameters
	maxBuf += zzvrt.Param("morebuf", 0)
	if maxFail > 0 {
		maxFail += zzvrt.Param("morefail", 0)
	}
	role := symRole()
	x.client = role == ShipRoleClient
	x.preID = zzvrt.Str("pre.remoteShipID")
	e := newEnv(role, x.preID)
	x.e = e
	e.info.free = freeOracles
	e.w.mayFail = maxFail > 0
	e.w.maxFail = maxFail
	c := e.c
	// pre-state
	x.pre = zzvrt.Choice("pre.state", 40)
	if !roleStateOK(x.client, x.pre) || !isRest(x.pre) {
		zzvrt.Assume(false)
	}
	c.smeState = model.ShipMessageExchangeState(x.pre)
	x.preTimer = zzvrt.Bool("pre.timerRunning")
	c.handshakeTimerRunning = x.preTimer
	c.handshakeTimerType = timeoutTimerType(zzvrt.Int("pre.timerType", 0, 2))
	c.lastReceivedWaitingValue = 0
	x.preClosed = zzvrt.Bool("pre.shutdownDone")
	if x.preClosed {
		c.shutdownOnce.Do(func() {})
	}
	x.preReader = zzvrt.Bool("pre.hasReader")
	if x.preReader {
		c.dataReader = e.info.reader
	}
	n := zzvrt.Choice("pre.buflen", maxBuf+1)
	for k := 0; k < n; k++ {
		b := zzvrt.Bytes("pre.buf")
		x.preBuf = append(x.preBuf, b)
		c.spineBuffer = append(c.spineBuffer, b)
	}
	e.w.closed = zzvrt.Bool("pre.transportClosed")
	x.preGranted = x.client || zzvrt.Bool("pre.granted")
	e.info.granted = x.preGranted
	zzvrt.Assume(x.invHolds(x.pre, x.preGranted, x.preClosed, e.w.closed, x.preReader, x.preTimer, n))
	// the event
	x.event = events[zzvrt.Choice("event", len(events))]
	if (x.event == evtRun) != (x.pre == 0) {
		zzvrt.Assume(false) // Run is called exactly once, right after construction, before anything else (hub code path)
	}
	if x.event == evtTimeout && !x.preTimer {
		zzvrt.Assume(false) // a timeout needs an armed timer (stale timers are C14's subject)
	}
	if (x.event == evtApprove || x.event == evtAbort) && x.preClosed {
		zzvrt.Assume(false) // the hub only reaches registered connections; a closed one has been unregistered (C11)
	}
	if x.event == evtMsg && e.w.closed {
		zzvrt.Assume(false) // a closed transport delivers nothing (C13)
	}
	if x.event == evtMsg {
		x.msg = zzvrt.Bytes("msg")
		zzvrt.Assume(len(x.msg) >= 2)
		c.HandleIncomingWebsocketMessage(x.msg)
	} else {
		e.doEvent(x.event)
	}
	// goroutines the event spawned: delayed close after an announce, delayed close after abort
	zzvrt.RunAll() // everything the event spawned runs; short delays elapse, handshake timers stay pending (SetTimerLimit in newEnv)
	zzvrt.Fact("edge", b2i(x.client), x.pre, int(c.smeState))
	return x
}

func b2i(b bool) int {
	if b {
		return 1
	}
	return 0
}

// assertInv: the invariant is inductive (post-state satisfies it again).
func (x *stepCtx) assertInv() {
	c := x.e.c
	s := int(c.smeState)
	closed := x.preClosed || x.e.log.count(evClosed) > 0 // Once consumed implies a close was reported or pending
	_ = closed
	zzvrt.Assert(roleStateOK(x.client, s), "inv.role")
	zzvrt.Assert(isRest(s), "inv.rest")
	zzvrt.Assert(!isTrusted(s) || x.e.info.granted, "inv.trusted-implies-granted")
	zzvrt.Assert(c.dataReader == nil || x.e.info.granted, "inv.reader-implies-granted")
	zzvrt.Assert(c.dataReader == nil || s == 38 || s == 39, "inv.reader-state")
	zzvrt.Assert(s != 38 || c.dataReader != nil, "inv.complete-has-reader")
	zzvrt.Assert(c.dataReader == nil || len(c.spineBuffer) == 0, "inv.buffer-empty-with-reader")
	zzvrt.Assert(!isTerminal(s) || x.e.w.closed, "inv.terminal-transport-closed")
	zzvrt.Assert(!isTerminal(s) || !c.handshakeTimerRunning, "inv.terminal-no-timer")
	zzvrt.Assert(s != 38 || !c.handshakeTimerRunning, "inv.complete-no-timer")
	zzvrt.Assert(!(x.preClosed || x.e.log.count(evClosed) > 0) || x.e.w.closed, "inv.closed-transport-closed")
	zzvrt.Assert(!(x.preClosed || x.e.log.count(evClosed) > 0) || !c.handshakeTimerRunning, "inv.closed-no-timer")
	zzvrt.Assert(s != 0, "inv.initstart-left")
}

// ---- C04: state graph conformance, terminal finality ----

func (x *stepCtx) assertC04() {
	e := x.e
	prev := x.pre
	dead := isTerminal(x.pre) || x.preClosed
	for _, ev := range e.log.Ev {
		switch ev.Kind {
		case evState:
			zzvrt.Assert(edgeOK(x.client, prev, ev.A), "C04.edge")
			if dead {
				zzvrt.Assert(ev.A == prev || !isProgress(ev.A), "C04.progress-after-terminal")
			}
			if isTerminal(ev.A) {
				dead = true
			}
			prev = ev.A
		case evWrite:
			if dead {
				// only the closing exchange may still be sent
				zzvrt.Assert(len(ev.B) > 0 && ev.B[0] == model.MsgTypeEnd, "C04.write-after-terminal")
			}
		}
	}
	zzvrt.Assert(int(e.c.smeState) == prev, "C04.unreported-state-change")
	if isTerminal(int(e.c.smeState)) {
		zzvrt.Assert(!e.c.handshakeTimerRunning, "C04.timer-armed-after-terminal")
		zzvrt.Assert(e.w.closed, "C04.terminal-transport-open")
		if !x.preClosed {
			// the connection itself has to close its transport (a transport that died under it still needs Close
			// to release it) and to report its end, exactly once
			zzvrt.Assert(e.log.count(evCloseData) >= 1, "C04.terminal-without-closing-the-transport")
			zzvrt.Assert(e.log.count(evClosed) == 1, "C04.terminal-end-not-reported-once")
		}
	}
}

// ---- C01: trust gate ----

func (x *stepCtx) assertC01() {
	e := x.e
	granted := x.preGranted
	for _, ev := range e.log.Ev {
		switch ev.Kind {
		case evGrant:
			granted = true
		case evState:
			if ev.A == 7 && x.event == evtApprove {
				granted = true
			}
			if isTrusted(ev.A) {
				zzvrt.Assert(granted, "C01.trusted-state-without-grant")
			}
		case evSetup:
			zzvrt.Assert(granted, "C01.setup-without-grant")
			zzvrt.Assert(int(e.c.smeState) == 38 || int(e.c.smeState) == 39, "C01.setup-before-access-phase")
		case evDeliver:
			zzvrt.Assert(granted, "C01.deliver-without-grant")
			zzvrt.Assert(x.preReader || e.log.count(evSetup) > 0, "C01.deliver-before-completion")
		}
	}
	// cancelling aborts a handshake that waits for trust (locally pending or waiting for the peer's decision)
	if x.event == evtAbort && (x.pre == 8 || x.pre == 11) && !x.preClosed {
		post := int(e.c.smeState)
		zzvrt.Assert(post == 15 || post == 39, "C10.cancel-does-not-abort-the-waiting-handshake")
	}
	// approval is only honoured for a pending request
	if x.event == evtApprove && x.pre != 11 {
		zzvrt.Assert(len(e.log.Ev) == 0, "C01.approve-outside-pending")
	}
	// setup at most once, and only in the step that leaves the access-methods phase
	zzvrt.Assert(e.log.count(evSetup) <= 1, "C01.setup-twice")
	if e.log.count(evSetup) > 0 {
		zzvrt.Assert(x.pre == 36 && x.event == evtMsg, "C01.setup-outside-access-phase")
	}
}

// ---- C09: SHIP ID pinning ----

// presentedID returns the id the peer put into its access-methods reply and its state
// (0 = no parsed reply, 1 = id missing, 2 = present).
func presentedID(msg []byte) (string, int) {
	if zzvrt.Symbolic() {
		return zzvrt.JSONStr("AccessMethods", "AccessMethods.Id"), zzvrt.JSONState("AccessMethods", "AccessMethods.Id")
	}
	if len(msg) < 2 {
		return "", 0
	}
	var am model.AccessMethods
	if err := json.Unmarshal(JsonFromEEBUSJson(msg[1:]), &am); err != nil {
		return "", 0
	}
	if am.AccessMethods.Id == nil {
		return "", 1
	}
	return *am.AccessMethods.Id, 2
}

func (x *stepCtx) assertC09() {
	e := x.e
	nSetup := e.log.count(evSetup)
	nRep := e.log.count(evReportID)
	if nSetup > 0 {
		id, idState := presentedID(x.msg)
		zzvrt.Assert(idState == 2, "C09.setup-without-presented-id")
		if len(x.preID) > 0 {
			zzvrt.Assert(id == x.preID, "C09.setup-with-wrong-id")
			zzvrt.Assert(nRep == 0, "C09.known-id-reported-again")
		} else {
			zzvrt.Assert(nRep == 1, "C09.new-id-not-reported-once")
		}
		zzvrt.Assert(e.c.remoteShipID == id, "C09.stored-id-differs")
		// report strictly before setup
		seenSetup := false
		for _, ev := range e.log.Ev {
			if ev.Kind == evSetup {
				seenSetup = true
			}
			if ev.Kind == evReportID {
				zzvrt.Assert(!seenSetup, "C09.report-after-setup")
				zzvrt.Assert(ev.S == id, "C09.reported-id-differs")
			}
		}
	} else {
		zzvrt.Assert(nRep == 0, "C09.report-without-setup")
		zzvrt.Assert(e.c.remoteShipID == x.preID, "C09.id-changed-without-setup")
	}
}

// ---- C06: SPINE payload buffering / delivery ----

func dataPayload(msg []byte) (string, int) {
	if zzvrt.Symbolic() {
		return zzvrt.JSONStr("ShipData", "Data.Payload"), zzvrt.JSONState("ShipData", "Data.Payload")
	}
	if len(msg) < 2 {
		return "", 0
	}
	var d model.ShipData
	if err := json.Unmarshal(JsonFromEEBUSJson(msg[1:]), &d); err != nil {
		return "", 0
	}
	if d.Data.Payload == nil {
		return "", 1
	}
	return string(d.Data.Payload), 2
}

func (x *stepCtx) assertC06() {
	e := x.e
	c := e.c
	var delivered [][]byte
	for _, ev := range e.log.Ev {
		if ev.Kind == evDeliver {
			delivered = append(delivered, ev.B)
		}
	}
	isData := x.event == evtMsg && c.hasSpineDatagram(x.msg)
	p, pState := "", 0
	if isData {
		p, pState = dataPayload(x.msg)
	}
	hasPayload := isData && pState == 2
	switch {
	case hasPayload && x.preReader:
		zzvrt.Assert(len(delivered) == 1 && string(delivered[0]) == p, "C06.data-not-delivered-once")
		zzvrt.Assert(len(c.spineBuffer) == 0, "C06.buffer-changed")
	case hasPayload && !x.preReader:
		zzvrt.Assert(len(delivered) == 0, "C06.delivered-before-completion")
		zzvrt.Assert(len(c.spineBuffer) == len(x.preBuf)+1, "C06.not-buffered")
		for i := range x.preBuf {
			if i < len(c.spineBuffer) {
				zzvrt.Assert(string(c.spineBuffer[i]) == string(x.preBuf[i]), "C06.buffer-reordered")
			}
		}
		if len(c.spineBuffer) == len(x.preBuf)+1 {
			zzvrt.Assert(string(c.spineBuffer[len(x.preBuf)]) == p, "C06.buffered-wrong-payload")
		}
	case e.log.count(evSetup) > 0:
		// the completing step flushes the buffer in arrival order
		zzvrt.Assert(len(delivered) == len(x.preBuf), "C06.flush-count")
		for i := range x.preBuf {
			if i < len(delivered) {
				zzvrt.Assert(string(delivered[i]) == string(x.preBuf[i]), "C06.flush-order")
			}
		}
		zzvrt.Assert(len(c.spineBuffer) == 0, "C06.buffer-not-emptied")
		// flush happens after the state was reported complete
		sawComplete := false
		for _, ev := range e.log.Ev {
			if ev.Kind == evState && ev.A == 38 {
				sawComplete = true
			}
			if ev.Kind == evDeliver {
				zzvrt.Assert(sawComplete, "C06.flush-before-complete")
			}
		}
	default:
		zzvrt.Assert(len(delivered) == 0, "C06.spurious-delivery")
		zzvrt.Assert(len(c.spineBuffer) == len(x.preBuf), "C06.buffer-changed-by-other-event")
		for i := range x.preBuf {
			if i < len(c.spineBuffer) {
				zzvrt.Assert(string(c.spineBuffer[i]) == string(x.preBuf[i]), "C06.buffer-content-changed")
			}
		}
	}
}

var allEvents = []int{evtMsg, evtTimeout, evtApprove, evtAbort, evtConnErr, evtClose, evtWritePayload, evtRun}

// H_Step_C04: one step, state-graph oracle + invariant.
func H_Step_C04() {
	x := newStep(0, allEvents, true, 1)
	x.assertInv()
	x.assertC04()
	zzvrt.Cover("step.end")
}

// H_Step_C01: one step, trust-gate oracle + invariant.
func H_Step_C01() {
	x := newStep(1, allEvents, true, 1)
	x.assertInv()
	x.assertC01()
	zzvrt.Cover("step.end")
}

// H_Step_C09: one step, SHIP-ID oracle.
func H_Step_C09() {
	x := newStep(0, allEvents, true, 0)
	x.assertC09()
	zzvrt.Cover("step.end")
}

// H_Step_C06: one step, buffering/delivery oracle.
func H_Step_C06() {
	x := newStep(2, allEvents, true, 0)
	x.assertC06()
	zzvrt.Cover("step.end")
}

// H_Step_Vacuity: reachability witness for the step harness (must be violated).
func H_Step_Vacuity() {
	newStep(0, allEvents, true, 1)
	zzvrt.Fail("vacuity.step")
}

// H_C06_Send: sender side - one WriteShipMessageWithPayload call hands at most one frame to the
// transport, a data frame (header byte 2), and none once the transport is closed.
func H_C06_Send() {
	e := newEnv(symRole(), "")
	e.c.smeState = model.SmeStateComplete
	e.c.dataReader = e.info.reader
	e.w.closed = zzvrt.Bool("pre.transportClosed")
	wasClosed := e.w.closed
	n := zzvrt.Choice("writes", 3)
	for k := 0; k < n; k++ {
		e.c.WriteShipMessageWithPayload(zzvrt.Bytes("payload"))
	}
	writes := 0
	for _, ev := range e.log.Ev {
		if ev.Kind == evWrite {
			writes++
			zzvrt.Assert(len(ev.B) > 0 && ev.B[0] == model.MsgTypeData, "C06.send-not-a-data-frame")
		}
	}
	zzvrt.Assert(writes <= n, "C06.send-duplicated")
	if wasClosed {
		zzvrt.Assert(writes == 0, "C06.send-on-closed-transport")
	}
	zzvrt.Cover("step.end")
}

// H_C06_Seq: three consecutive frames on a connection that is waiting in the access-methods phase (no reader yet):
// every datagram is held back with the content it had when it arrived, in arrival order, and the completing frame
// flushes exactly those contents. (A sequence, not a single step: contents captured at arrival are compared later,
// which exposes buffered slices that alias a reused decode buffer.)
func H_C06_Seq() {
	e := newEnv(symRole(), "")
	e.info.free = true
	c := e.c
	c.smeState = model.SmeAccessMethodsRequest
	e.info.granted = true
	var want []string
	for i := 0; i < 3; i++ {
		m := zzvrt.Bytes("msg")
		zzvrt.Assume(len(m) >= 2)
		hadReader := c.dataReader != nil
		before := e.log.count(evDeliver)
		c.HandleIncomingWebsocketMessage(m)
		if c.hasSpineDatagram(m) {
			p, st := dataPayload(m)
			if st == 2 {
				if hadReader {
					zzvrt.Assert(e.log.count(evDeliver) == before+1, "C06.seq-data-not-delivered-once")
				} else {
					want = append(want, p)
				}
			}
		}
		if c.dataReader == nil {
			// still buffering: the buffer holds exactly the arrived payloads with their original content
			zzvrt.Assert(len(c.spineBuffer) == len(want), "C06.seq-buffer-length")
			for k := range want {
				if k < len(c.spineBuffer) {
					zzvrt.Assert(string(c.spineBuffer[k]) == want[k], "C06.seq-buffered-content-changed")
				}
			}
		} else if !hadReader {
			// this frame completed the handshake: the flush delivered the held-back payloads, in order, unchanged
			var got []string
			for _, ev := range e.log.Ev {
				if ev.Kind == evDeliver {
					got = append(got, string(ev.B))
				}
			}
			zzvrt.Assert(len(got) == len(want), "C06.seq-flush-count")
			for k := range want {
				if k < len(got) {
					zzvrt.Assert(got[k] == want[k], "C06.seq-flush-content")
				}
			}
		}
	}
	zzvrt.Cover("step.end")
}
