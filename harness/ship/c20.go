//go:build verif

package ship

import (
	"errors"

	"github.com/enbility/ship-go/model"
	"github.com/enbility/ship-go/zzvrt"
)

const (
	c20Msg = iota
	c20Timeout
	c20Approve
	c20Abort
	c20Close
	c20Write
	c20StateQuery
	c20ConnErr
	c20Count
)

func (e *vEnv) c20Op(op int) {
	c := e.c
	switch op {
	case c20Msg:
		m := zzvrt.Bytes("msg")
		zzvrt.Assume(len(m) >= 2)
		c.HandleIncomingWebsocketMessage(m)
	case c20Timeout:
		// what the timer goroutine does once its wait elapsed (it is the current timer)
		c.handshakeTimerMux.Lock()
		c.handshakeTimerRunning = false
		c.handshakeTimerMux.Unlock()
		c.handleState(true, nil)
	case c20Approve:
		c.ApprovePendingHandshake()
	case c20Abort:
		c.AbortPendingHandshake()
	case c20Close:
		c.CloseConnection(zzvrt.Bool("close.safe"), 0, "r")
	case c20Write:
		c.WriteShipMessageWithPayload([]byte(`{"datagram":{}}`))
	case c20StateQuery:
		_, _ = c.ShipHandshakeState()
	case c20ConnErr:
		c.ReportConnectionError(errors.New("transport error"))
	}
}

// H_C20_Ship: two entry points of one ShipConnection on two goroutines (read pump, timer goroutine, application, hub).
func H_C20_Ship() {
	e := newEnv(symRole(), "")
	e.info.free = true
	pre := zzvrt.Choice("pre.state", 40)
	if !isRest(pre) || pre == 0 || isTerminal(pre) {
		zzvrt.Assume(false)
	}
	e.c.smeState = model.ShipMessageExchangeState(pre)
	if pre == 38 {
		e.c.dataReader = e.info.reader
	}
	e.c.handshakeTimerType = timeoutTimerType(zzvrt.Choice("pre.timerType", 3))
	a := zzvrt.Choice("op.a", c20Count)
	b := zzvrt.Choice("op.b", c20Count)
	if b < a || (a == c20Msg && b == c20Msg) {
		zzvrt.Assume(false) // unordered pairs; two frames are always handled by the same (read pump) goroutine
	}
	zzvrt.StartAccessLog()
	go func() { e.c20Op(a) }()
	e.c20Op(b)
	zzvrt.WaitQuiescent()
	zzvrt.Cover("c20.end")
}

var c20Tags = []string{"msg", "timeout", "approve", "abort", "close", "write", "statequery", "connerr"}

// H_C20_ShipOp: one entry point alone; its accesses (location, write, locks held) are dumped as facts per operation
// and state, and compared pairwise by the check (a quadratic product of the path sets is avoided).
func H_C20_ShipOp() {
	e := newEnv(symRole(), "")
	e.info.free = true
	pre := zzvrt.Choice("pre.state", 40)
	if !isRest(pre) || pre == 0 || isTerminal(pre) {
		zzvrt.Assume(false)
	}
	e.c.smeState = model.ShipMessageExchangeState(pre)
	if pre == 38 {
		e.c.dataReader = e.info.reader
	}
	e.c.handshakeTimerType = timeoutTimerType(zzvrt.Choice("pre.timerType", 3))
	op := zzvrt.Choice("op", c20Count)
	zzvrt.StartAccessLog()
	e.c20Op(op)
	zzvrt.RunAll() // everything the event spawned runs; short delays elapse, handshake timers stay pending (SetTimerLimit in newEnv)
	role := 0
	if e.c.role == ShipRoleClient {
		role = 1
	}
	zzvrt.DumpAccesses(c20Tags[op] + "@" + c20Num[pre] + "@" + c20Num[role] + "@" + c20Num[int(e.c.handshakeTimerType)])
	zzvrt.Cover("c20.end")
}

var c20Num = []string{"0", "1", "2", "3", "4", "5", "6", "7", "8", "9", "10", "11", "12", "13", "14", "15", "16", "17", "18", "19", "20",
	"21", "22", "23", "24", "25", "26", "27", "28", "29", "30", "31", "32", "33", "34", "35", "36", "37", "38", "39"}

// H_C20_ShipPair: one candidate pair (operations, state, role, timer type given as parameters) on two goroutines.
func H_C20_ShipPair() {
	role := ShipRoleServer
	if zzvrt.Param("role", 0) == 1 {
		role = ShipRoleClient
	}
	e := newEnv(role, "")
	e.info.free = true
	pre := zzvrt.Param("state", 8)
	e.c.smeState = model.ShipMessageExchangeState(pre)
	if pre == 38 {
		e.c.dataReader = e.info.reader
	}
	e.c.handshakeTimerType = timeoutTimerType(zzvrt.Param("timertype", 0))
	a := zzvrt.Param("a", 0)
	b := zzvrt.Param("b", 1)
	zzvrt.StartAccessLog()
	done := make(chan struct{})
	go func() { e.c20Op(a); close(done) }()
	e.c20Op(b)
	if zzvrt.Symbolic() {
		zzvrt.RunSpawned("H_C20_ShipPair$1") // manual scheduling: timer goroutines stay parked
	} else {
		<-done
	}
	zzvrt.Cover("c20.end")
}
