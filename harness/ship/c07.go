//go:build verif

package ship

import (
	"strings"

	"github.com/enbility/ship-go/zzvrt"
)

// ---- reference shape (spec/eebus_shape): wire text W(d) and compact text C(d) of a JSON tree ----

const (
	jObj = iota
	jArr
	jStr // string, body in s (already escaped)
	jLit // number / true / false / null literal in s
)

type jv struct {
	kind int
	s    string
	keys []string
	kids []jv
}

func jstr(s string) jv { return jv{kind: jStr, s: s} }
func jlit(s string) jv { return jv{kind: jLit, s: s} }
func jarr(k ...jv) jv  { return jv{kind: jArr, kids: k} }
func jobj(keys []string, k ...jv) jv {
	return jv{kind: jObj, keys: keys, kids: k}
}

// compact standard JSON text
func compact(v jv) string {
	switch v.kind {
	case jObj:
		out := "{"
		for i, k := range v.keys {
			if i > 0 {
				out += ","
			}
			out += "\"" + k + "\":" + compact(v.kids[i])
		}
		return out + "}"
	case jArr:
		out := "["
		for i, k := range v.kids {
			if i > 0 {
				out += ","
			}
			out += compact(k)
		}
		return out + "]"
	case jStr:
		return "\"" + v.s + "\""
	}
	return v.s
}

// EEBUS wire text: every object becomes an array of single-member objects, at every level
func wireInner(v jv) string {
	switch v.kind {
	case jObj:
		out := "["
		for i, k := range v.keys {
			if i > 0 {
				out += ","
			}
			out += "{\"" + k + "\":" + wireInner(v.kids[i]) + "}"
		}
		return out + "]"
	case jArr:
		out := "["
		for i, k := range v.kids {
			if i > 0 {
				out += ","
			}
			out += wireInner(k)
		}
		return out + "]"
	case jStr:
		return "\"" + v.s + "\""
	}
	return v.s
}

// the outer brackets of the top level are elided (as the code and SHIP's examples do)
func wire(v jv) string {
	w := wireInner(v)
	w = strings.TrimPrefix(w, "[")
	w = strings.TrimSuffix(w, "]")
	return w
}

func hasPattern(s string) bool {
	return zzvrt.OrB(zzvrt.OrB(strings.Contains(s, "[{"), strings.Contains(s, "},{")), zzvrt.OrB(strings.Contains(s, "}]"), strings.Contains(s, "[]")))
}

// legalBody: an escape-free JSON string body (no quote, no backslash, no control characters)
func legalBody(s string) bool { return zzvrt.BytesInRange(s, 0x20, 0xff, "\"\\") }

func digits(s string) bool {
	return zzvrt.AndB(zzvrt.AndB(len(s) > 0, zzvrt.BytesInRange(s, '0', '9', "")), zzvrt.OrB(len(s) == 1, !strings.HasPrefix(s, "0")))
}

// skeleton k with the hole h at one leaf position
func c07Skeleton(k int, h string) (jv, bool) {
	a := []string{"a"}
	switch k {
	case 0: // string value
		return jobj([]string{"k"}, jstr(h)), false
	case 1: // member name
		return jobj([]string{h}, jlit("1")), false
	case 2: // nested object
		return jobj(a, jobj([]string{"b"}, jstr(h))), false
	case 3: // array element
		return jobj(a, jarr(jstr(h), jlit("2"))), false
	case 4: // array of objects
		return jobj(a, jarr(jobj([]string{"b"}, jstr(h)), jobj([]string{"c"}, jlit("true")))), false
	case 5: // number literal of arbitrary length
		return jobj(a, jlit(h)), true
	case 6: // several members, hole in the middle
		return jobj([]string{"a", "b", "c"}, jstr("x"), jstr(h), jlit("null")), false
	case 7: // nested arrays
		return jobj(a, jarr(jarr(jstr(h)), jarr(jlit("1"), jlit("2")))), false
	}
	return jv{}, false
}

const c07Skeletons = 8

// H_C07_Hole: JsonFromEEBUSJson(W(d)) == C(d) for every document of the skeleton family with one
// symbolic leaf (string body / member name / number literal) of bounded length.
func H_C07_Hole() {
	k := zzvrt.Choice("skeleton", c07Skeletons)
	h := zzvrt.Str("hole")
	d, isNum := c07Skeleton(k, h)
	if isNum {
		zzvrt.Assume(digits(h))
	} else {
		zzvrt.Assume(legalBody(h))
	}
	w := wire(d)
	c := compact(d)
	got := string(JsonFromEEBUSJson([]byte(w)))
	bad := hasPattern(h)
	zzvrt.Assert(zzvrt.OrB(bad, got == c), "C07.roundtrip")
	zzvrt.Assert(zzvrt.OrB(!bad, got == c), "C07.roundtrip-pattern-inside-string")
	zzvrt.Cover("c07.end")
}

// H_C07_Fixed: closed documents (empty containers, the repo's sample shapes).
func H_C07_Fixed() {
	docs := []jv{
		jobj([]string{"a"}, jarr()),                              // empty array
		jobj([]string{"a"}, jarr(jarr())),                        // nested empty array
		jobj(nil),                                                // empty top-level object
		jobj([]string{"a"}, jobj(nil)),                           // empty nested object
		jobj([]string{"a"}, jlit("12345678901234567890123")),     // beyond float64
		jobj([]string{"a", "b"}, jlit("1.50"), jlit("-0.0e+10")), // literals kept verbatim
		jobj([]string{"d"}, jarr(jobj([]string{"x"}, jlit("1")), jobj([]string{"y"}, jarr(jobj([]string{"z"}, jlit("null")))))),
		jobj([]string{"a"}, jarr(jarr(jobj([]string{"b"}, jlit("1"))))),                                          // object inside an array inside an array
		jobj([]string{"a"}, jarr(jarr(jobj([]string{"b"}, jlit("1"))), jarr(jlit("2")))),                         // ... with a sibling array
		jobj([]string{"a"}, jarr(jarr(jarr(jobj([]string{"b"}, jstr("x")), jobj([]string{"c"}, jlit("true")))))), // three levels
	}
	ids := []string{"C07.fixed-empty-array", "C07.fixed-nested-empty-array", "C07.fixed-empty-object", "C07.fixed-empty-nested-object",
		"C07.fixed-bignum", "C07.fixed-literals", "C07.fixed-nested", "C07.fixed-array-in-array", "C07.fixed-array-in-array-sibling",
		"C07.fixed-three-levels"}
	for i, d := range docs {
		got := string(JsonFromEEBUSJson([]byte(wire(d))))
		zzvrt.Assert(got == compact(d), ids[i])
	}
	zzvrt.Cover("c07.end")
}

// H_C07_Shrink: the transform never lengthens its input (lemma used by nothing else, kept as a cheap sanity obligation).
func H_C07_Shrink() {
	in := zzvrt.Bytes("in")
	out := JsonFromEEBUSJson(in)
	zzvrt.Assert(len(out) <= len(in), "C07.lemma-shrink")
	zzvrt.Cover("c07.end")
}

// ---- envelope splice (transformSpineDataIntoShipJson) ----

const c07EnvPrefix = `{"data":[{"header":[{"protocolId":"ee1.0"}]},{"payload":`
const c07EnvSuffix = `}]}`

// vInto replaces JsonIntoEEBUSJson inside the engine for the envelope harness (cut "call:"):
// the marshalled envelope yields its wire text, any other input is passed through unchanged.
func vInto(data []byte) (string, error) {
	if zzvrt.ProvKind(data) == "ShipData" {
		return c07EnvPrefix + `[{"place":"holder"}]` + c07EnvSuffix, nil
	}
	return string(data), nil
}

// H_C07_Envelope: the payload is spliced verbatim between the constant envelope prefix and suffix.
func H_C07_Envelope() {
	e := newEnv(ShipRoleClient, "")
	p := zzvrt.Bytes("payload")
	got, err := e.c.transformSpineDataIntoShipJson(p)
	if zzvrt.Symbolic() {
		zzvrt.Assert(err == nil, "C07.envelope-error")
		zzvrt.Assert(string(got) == c07EnvPrefix+string(p)+c07EnvSuffix, "C07.envelope-splice")
	} else if err == nil {
		want, _ := JsonIntoEEBUSJson(p)
		zzvrt.Assert(string(got) == c07EnvPrefix+want+c07EnvSuffix, "C07.envelope-splice")
	}
	zzvrt.Cover("c07.end")
}

// H_C07_IntoNative (runs natively only): translation validation of the reference shape W against the real
// JsonIntoEEBUSJson on the skeleton family with sample leaves, and of the envelope constants.
func H_C07_IntoNative() {
	samples := []string{"x", "", "a b", "ü", "12", "[{", "},{", "}]", "[]", "{", "}", ",", ":"}
	for k := 0; k < c07Skeletons; k++ {
		for _, h := range samples {
			d, isNum := c07Skeleton(k, h)
			if isNum {
				d, _ = c07Skeleton(k, "12345678901234567890123")
			}
			if k == 1 && h == "" {
				continue
			}
			got, err := JsonIntoEEBUSJson([]byte(compact(d)))
			zzvrt.Assert(err == nil && got == wire(d), "C07.into-shape")
		}
	}
	// every JSON tree with an object at the top, up to 5 nodes, depth 4 (concrete enumeration: validates the reference)
	for _, d := range genTrees(5, 4, true) {
		got, err := JsonIntoEEBUSJson([]byte(compact(d)))
		zzvrt.Assert(err == nil && got == wire(d), "C07.into-shape")
		if !hasEmptyContainer(d) {
			back := string(JsonFromEEBUSJson([]byte(wire(d))))
			zzvrt.Assert(back == compact(d), "C07.from-shape-small-trees")
		}
	}
	fixed := []jv{jobj([]string{"a"}, jarr()), jobj(nil), jobj([]string{"a"}, jobj(nil)),
		jobj([]string{"d"}, jarr(jobj([]string{"x"}, jlit("1")), jobj([]string{"y"}, jarr(jobj([]string{"z"}, jlit("null"))))))}
	for _, d := range fixed {
		got, err := JsonIntoEEBUSJson([]byte(compact(d)))
		zzvrt.Assert(err == nil && got == wire(d), "C07.into-shape")
	}
	e := newEnv(ShipRoleClient, "")
	got, err := e.c.transformSpineDataIntoShipJson([]byte(`{"datagram":{"x":1}}`))
	zzvrt.Assert(err == nil && string(got) == c07EnvPrefix+`{"datagram":[{"x":1}]}`+c07EnvSuffix, "C07.envelope-constants")
	// the splice is textual: string contents that mean something to replacement / formatting / templating functions must
	// come out verbatim (closed inputs; the symbolic envelope query covers arbitrary payload bytes only for a literal splice)
	for _, h := range []string{"$1", "${x}", "$$", "price in $US", "%s", "%d %v", "100%", "{{.}}", "payload", "#", "?", "a+b", "(x)", "^", "|"} {
		doc := `{"datagram":{"k":"` + h + `"}}`
		want, err1 := JsonIntoEEBUSJson([]byte(doc))
		got, err2 := e.c.transformSpineDataIntoShipJson([]byte(doc))
		zzvrt.Assert(err1 == nil && err2 == nil && string(got) == c07EnvPrefix+want+c07EnvSuffix, "C07.envelope-splice-alters-string-contents")
		zzvrt.Assert(strings.Contains(want, h), "C07.into-alters-string-contents") // none of these needs escaping in JSON
	}
}

func hasEmptyContainer(v jv) bool {
	if (v.kind == jObj || v.kind == jArr) && len(v.kids) == 0 {
		return true
	}
	for _, k := range v.kids {
		if hasEmptyContainer(k) {
			return true
		}
	}
	return false
}

// genTrees: all trees with at most n nodes and depth at most d; topObj: the root is an object.
func genTrees(n, d int, topObj bool) []jv {
	var out []jv
	if n <= 0 || d <= 0 {
		return out
	}
	if !topObj {
		out = append(out, jlit("7"), jstr("s"))
	}
	// containers with k children splitting the remaining node budget
	for _, kind := range []int{jObj, jArr} {
		if topObj && kind == jArr {
			continue
		}
		for _, kids := range genKidLists(n-1, d-1, 3) {
			v := jv{kind: kind, kids: kids}
			if kind == jObj {
				for i := range kids {
					v.keys = append(v.keys, string(rune('a'+i)))
				}
			}
			out = append(out, v)
		}
	}
	return out
}

// genKidLists: all lists of up to maxKids trees whose node counts sum to at most n
func genKidLists(n, d, maxKids int) [][]jv {
	out := [][]jv{{}}
	if n <= 0 || d <= 0 || maxKids <= 0 {
		return out
	}
	for first := 1; first <= n; first++ {
		for _, t := range genTrees(first, d, false) {
			if countNodes(t) != first {
				continue
			}
			for _, rest := range genKidLists(n-first, d, maxKids-1) {
				out = append(out, append([]jv{t}, rest...))
			}
		}
	}
	return out
}

func countNodes(v jv) int {
	n := 1
	for _, k := range v.kids {
		n += countNodes(k)
	}
	return n
}
