//go:build verif

package ship

import (
	"github.com/enbility/ship-go/zzvrt"
)

// H_C08_Step: any single event from an arbitrary pre-state must not panic or self-deadlock.
// The engine's implicit runtime checks are the assertions.
func H_C08_Step() {
	e := newEnv(symRole(), zzvrt.Str("pre.remoteShipID"))
	e.info.free = true
	e.w.mayFail = true
	e.w.maxFail = 1
	e.symPre(1)
	// peer-driven events only: a frame, a timer expiry, a transport error, the initial Run
	kinds := []int{evtMsg, evtTimeout, evtConnErr, evtRun}
	kind := kinds[zzvrt.Choice("event", len(kinds))]
	e.doEvent(kind)
	// a handler that returns with a mutex of the connection still held blocks the receive loop at the next frame
	zzvrt.Assert(zzvrt.LocksHeld(e.c) == 0, "C08.handler-returned-with-a-mutex-held")
	// closures spawned by the event (delayed close, abort-done close)
	zzvrt.RunAll() // everything the event spawned runs; short delays elapse, handshake timers stay pending (SetTimerLimit in newEnv)
	zzvrt.Cover("c08.step.end")
}

// H_C08_ShortFrames: direct calls with frames shorter than the pump would let through.
func H_C08_ShortFrames() {
	e := newEnv(symRole(), "")
	e.info.free = true
	e.symPre(0)
	var m []byte
	switch zzvrt.Choice("short.len", 3) {
	case 0:
		m = nil
	case 1:
		m = []byte{}
	case 2:
		m = []byte{zzvrt.Byte("short.b0")}
	}
	e.c.HandleIncomingWebsocketMessage(m)
	zzvrt.Cover("c08.short.end")
}

// H_Smoke: closed harness used by the engine self-test.
func H_Smoke() {
	e := newEnv(ShipRoleServer, "")
	e.info.paired = true
	e.c.Run()
	zzvrt.Assert(int(e.c.smeState) == 4, "smoke.serverwait")
	e.c.HandleIncomingWebsocketMessage([]byte{0, 0})
	zzvrt.Assert(int(e.c.smeState) == 8, "smoke.readylisten")
	zzvrt.Cover("smoke.end")
}
