//go:build verif

package ship

import "github.com/enbility/ship-go/model"

// Exported helpers for harnesses of other packages (package hub composes a real Hub with real ShipConnections).

// VCompleteHandshake performs what the last step of a successful handshake does once the peer's access methods were
// accepted (hs_access.go): enter Approved, set up the remote device through the info provider, enter Complete.
func VCompleteHandshake(c *ShipConnection) {
	c.setState(model.SmeStateApproved, nil)
	c.approveHandshake()
}

// VEnterState puts the connection into a handshake state the way the state machine does (state update reported).
func VEnterState(c *ShipConnection, s model.ShipMessageExchangeState) { c.setState(s, nil) }

// VState: the current handshake state.
func VState(c *ShipConnection) int { return int(c.getState()) }

// VTimeout: the current handshake timer expires.
func VTimeout(c *ShipConnection) {
	c.handshakeTimerMux.Lock()
	running := c.handshakeTimerRunning
	c.handshakeTimerRunning = false
	c.handshakeTimerMux.Unlock()
	if running {
		c.handleState(true, nil)
	}
}
