//go:build verif

package ship

import (
	"time"

	"github.com/enbility/ship-go/zzvrt"
)

// timeout deliveries observed by the harness (handleState is cut to this recorder in the C14 run)
var c14Delivered int

func vHandleState(c *ShipConnection, timeout bool, message []byte) {
	if timeout {
		c14Delivered++
		zzvrt.Log("timeout delivered")
	}
}

// H_C14_Timer: a symbolic program of arm(short) / arm(long) / stop operations, all performed "well before expiry"
// (no timer may elapse until the program is done and every goroutine is parked). Then time advances to the short
// deadline, then to the long one. A timeout may be delivered only by the most recently armed timer, only if it was
// not stopped, and only at that timer's own deadline.
func c14Timer(nops int) {
	e := newEnv(ShipRoleServer, "")
	c := e.c
	c14Delivered = 0
	zzvrt.SetTimers(false)
	short, long := 10*time.Second, 60*time.Second
	if !zzvrt.Symbolic() {
		short, long = 40*time.Millisecond, 400*time.Millisecond // native replay: real, short timers
	}
	armed := 0 // 0 none, 1 short, 2 long
	for i := 0; i < nops; i++ {
		switch zzvrt.Choice("op", 3) {
		case 0:
			c.setHandshakeTimer(timeoutTimerTypeWaitForReady, short)
			armed = 1
		case 1:
			c.setHandshakeTimer(timeoutTimerTypeWaitForReady, long)
			armed = 2
		case 2:
			c.stopHandshakeTimer()
			armed = 0
		}
	}
	zzvrt.WaitQuiescent()
	zzvrt.FireTimersUpTo(short)
	zzvrt.WaitQuiescent()
	wantEarly := 0
	if armed == 1 {
		wantEarly = 1
	}
	zzvrt.Assert(c14Delivered <= wantEarly, "C14.stopped-or-replaced-timer-fired")
	zzvrt.Assert(c14Delivered >= wantEarly, "C14.armed-timer-did-not-fire")
	zzvrt.FireTimersUpTo(long)
	zzvrt.WaitQuiescent()
	want := 0
	if armed != 0 {
		want = 1
	}
	zzvrt.Assert(c14Delivered <= want, "C14.stopped-or-replaced-timer-fired")
	zzvrt.Assert(c14Delivered >= want, "C14.armed-timer-did-not-fire")
	zzvrt.Assert(zzvrt.NumLive("") == 0, "C14.timer-goroutine-leaked")
	zzvrt.Cover("c14.end")
}

// H_C14_Concurrent: two goroutines arm the timer at about the same time (the read pump handling a hello frame, the
// application approving, a timer goroutine re-arming for a prolongation), one with a short and one with a long duration and
// with different timer types; optionally the arming goroutines stop the timer afterwards. Whatever the interleaving, the
// timer that is current once both are done (its type is what the connection reports) is the only one that may deliver, at
// its own deadline, and not at all if the last operation was a stop.
func H_C14_Concurrent() {
	e := newEnv(ShipRoleServer, "")
	c := e.c
	c14Delivered = 0
	zzvrt.SetTimers(false)
	short, long := 10*time.Second, 60*time.Second
	if !zzvrt.Symbolic() {
		short, long = 40*time.Millisecond, 400*time.Millisecond
	}
	stopAfter := zzvrt.Choice("stop.after", 3) // 0 nobody stops, 1 the short armer stops afterwards, 2 the long armer does
	order := 0                                 // ghost: which goroutine performed the last operation
	done := 0
	go func() {
		c.setHandshakeTimer(timeoutTimerTypeWaitForReady, short)
		if stopAfter == 1 {
			c.stopHandshakeTimer()
		}
		order = 1
		done++
	}()
	go func() {
		c.setHandshakeTimer(timeoutTimerTypeSendProlongationRequest, long)
		if stopAfter == 2 {
			c.stopHandshakeTimer()
		}
		order = 2
		done++
	}()
	zzvrt.WaitQuiescent()
	zzvrt.Assert(done == 2, "C14.arming-blocked")
	running := c.getHandshakeTimerRunning()
	current := c.getHandshakeTimerType()
	_ = order
	zzvrt.FireTimersUpTo(short)
	zzvrt.WaitQuiescent()
	wantEarly := 0
	if running && current == timeoutTimerTypeWaitForReady {
		wantEarly = 1
	}
	zzvrt.Assert(c14Delivered <= wantEarly, "C14.stopped-or-replaced-timer-fired")
	zzvrt.Assert(c14Delivered >= wantEarly, "C14.armed-timer-did-not-fire")
	zzvrt.FireTimersUpTo(long)
	zzvrt.WaitQuiescent()
	want := 0
	if running {
		want = 1
	}
	zzvrt.Assert(c14Delivered <= want, "C14.stopped-or-replaced-timer-fired")
	zzvrt.Assert(c14Delivered >= want, "C14.armed-timer-did-not-fire")
	zzvrt.Cover("c14.end")
}

func H_C14_Timer2() { c14Timer(2) }
func H_C14_Timer3() { c14Timer(3) }
func H_C14_Timer4() { c14Timer(4) }
