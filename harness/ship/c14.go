//go:build verif

package ship

import (
	"sync"
	"time"

	"github.com/enbility/ship-go/zzvrt"
)

// timeout deliveries observed by the harness (handleState is cut to this recorder in the C14 run)
var c14Delivered int

// ghost of the symbolic-time harness: every armed timer with its expiry instant, the instant it was stopped or replaced
// (if it was), and whether a delivery has been attributed to it
type c14T struct {
	due      time.Duration
	ended    bool
	endedAt  time.Duration
	consumed bool
}

var (
	c14mu     sync.Mutex
	c14Sym    bool
	c14Timers []*c14T
	c14Slack  time.Duration
)

func vHandleState(c *ShipConnection, timeout bool, message []byte) {
	if timeout {
		c14Delivered++
		zzvrt.Log("timeout delivered")
		if c14Sym {
			// a delivery is legitimate iff it can be attributed to a timer that has expired and was still the current one
			// at its expiry instant (not stopped or replaced before), and that has not delivered already
			now := zzvrt.Now()
			c14mu.Lock()
			ok := false
			for k := len(c14Timers) - 1; k >= 0; k-- { // the latest eligible timer first
				t := c14Timers[k]
				if !t.consumed && t.due <= now+c14Slack && (!t.ended || t.endedAt+c14Slack >= t.due) {
					t.consumed = true
					ok = true
					break
				}
			}
			c14mu.Unlock()
			zzvrt.Assert(ok, "C14.timeout-delivered-by-a-timer-stopped-or-replaced-before-its-expiry")
		}
	}
}

// H_C14_Timer: a symbolic program of arm(short) / arm(long) / stop operations, all performed "well before expiry"
// (no timer may elapse until the program is done and every goroutine is parked). Then time advances to the short
// deadline, then to the long one. A timeout may be delivered only by the most recently armed timer, only if it was
// not stopped, and only at that timer's own deadline.
func c14Timer(nops int) {
	e := newEnv(ShipRoleServer, "")
	c := e.c
	c14Delivered = 0
	zzvrt.SetTimers(false)
	short, long := 10*time.Second, 60*time.Second
	if !zzvrt.Symbolic() {
		short, long = 40*time.Millisecond, 400*time.Millisecond // native replay: real, short timers
	}
	armed := 0 // 0 none, 1 short, 2 long
	for i := 0; i < nops; i++ {
		switch zzvrt.Choice("op", 3) {
		case 0:
			c.setHandshakeTimer(timeoutTimerTypeWaitForReady, short)
			armed = 1
		case 1:
			c.setHandshakeTimer(timeoutTimerTypeWaitForReady, long)
			armed = 2
		case 2:
			c.stopHandshakeTimer()
			armed = 0
		}
	}
	zzvrt.WaitQuiescent()
	zzvrt.FireTimersUpTo(short)
	zzvrt.WaitQuiescent()
	wantEarly := 0
	if armed == 1 {
		wantEarly = 1
	}
	zzvrt.Assert(c14Delivered <= wantEarly, "C14.stopped-or-replaced-timer-fired")
	zzvrt.Assert(c14Delivered >= wantEarly, "C14.armed-timer-did-not-fire")
	zzvrt.FireTimersUpTo(long)
	zzvrt.WaitQuiescent()
	want := 0
	if armed != 0 {
		want = 1
	}
	zzvrt.Assert(c14Delivered <= want, "C14.stopped-or-replaced-timer-fired")
	zzvrt.Assert(c14Delivered >= want, "C14.armed-timer-did-not-fire")
	zzvrt.Assert(zzvrt.NumLive("") == 0, "C14.timer-goroutine-leaked")
	zzvrt.Cover("c14.end")
}

// H_C14_Concurrent: two goroutines arm the timer at about the same time (the read pump handling a hello frame, the
// application approving, a timer goroutine re-arming for a prolongation), one with a short and one with a long duration and
// with different timer types; optionally the arming goroutines stop the timer afterwards. Whatever the interleaving, the
// timer that is current once both are done (its type is what the connection reports) is the only one that may deliver, at
// its own deadline, and not at all if the last operation was a stop.
func H_C14_Concurrent() {
	e := newEnv(ShipRoleServer, "")
	c := e.c
	c14Delivered = 0
	zzvrt.SetTimers(false)
	short, long := 10*time.Second, 60*time.Second
	if !zzvrt.Symbolic() {
		short, long = 40*time.Millisecond, 400*time.Millisecond
	}
	stopAfter := zzvrt.Choice("stop.after", 3) // 0 nobody stops, 1 the short armer stops afterwards, 2 the long armer does
	order := 0                                 // ghost: which goroutine performed the last operation
	done := 0
	go func() {
		c.setHandshakeTimer(timeoutTimerTypeWaitForReady, short)
		if stopAfter == 1 {
			c.stopHandshakeTimer()
		}
		order = 1
		done++
	}()
	go func() {
		c.setHandshakeTimer(timeoutTimerTypeSendProlongationRequest, long)
		if stopAfter == 2 {
			c.stopHandshakeTimer()
		}
		order = 2
		done++
	}()
	zzvrt.WaitQuiescent()
	zzvrt.Assert(done == 2, "C14.arming-blocked")
	running := c.getHandshakeTimerRunning()
	current := c.getHandshakeTimerType()
	_ = order
	zzvrt.FireTimersUpTo(short)
	zzvrt.WaitQuiescent()
	wantEarly := 0
	if running && current == timeoutTimerTypeWaitForReady {
		wantEarly = 1
	}
	zzvrt.Assert(c14Delivered <= wantEarly, "C14.stopped-or-replaced-timer-fired")
	zzvrt.Assert(c14Delivered >= wantEarly, "C14.armed-timer-did-not-fire")
	zzvrt.FireTimersUpTo(long)
	zzvrt.WaitQuiescent()
	want := 0
	if running {
		want = 1
	}
	zzvrt.Assert(c14Delivered <= want, "C14.stopped-or-replaced-timer-fired")
	zzvrt.Assert(c14Delivered >= want, "C14.armed-timer-did-not-fire")
	zzvrt.Cover("c14.end")
}

// c14SymTime: time is a solver variable. A program of arm(short) / arm(long) / stop operations, each preceded by a
// symbolic pause; both durations are symbolic (short 5..60 s, long at least 10 s more, up to 120 s), pauses 0..30 s, so
// timers may expire in the middle of the program or never. Whatever the solver picks for durations and pauses and whatever
// the interleaving: a timeout is delivered only while a timer is current and not before that timer's own deadline, and a
// timer left armed at the end eventually delivers. (Natively the same program runs in milliseconds instead of seconds.)
func c14SymTime(nops int) {
	e := newEnv(ShipRoleServer, "")
	c := e.c
	c14Delivered = 0
	c14Sym, c14Timers, c14Slack = true, nil, 0
	zzvrt.SymbolicClock()
	short := time.Duration(zzvrt.Int("d.short", 5_000_000_000, 60_000_000_000))
	long := time.Duration(zzvrt.Int("d.long", 15_000_000_000, 120_000_000_000))
	zzvrt.Assume(long >= short+10_000_000_000)
	scale := func(d time.Duration) time.Duration {
		if zzvrt.Symbolic() {
			return d
		}
		return d / 1000
	}
	if !zzvrt.Symbolic() {
		c14Slack = 3 * time.Millisecond
	}
	short, long = scale(short), scale(long)
	endCurrent := func() {
		c14mu.Lock()
		if n := len(c14Timers); n > 0 && !c14Timers[n-1].ended {
			c14Timers[n-1].ended, c14Timers[n-1].endedAt = true, zzvrt.Now()
		}
		c14mu.Unlock()
	}
	for i := 0; i < nops; i++ {
		zzvrt.Advance(scale(time.Duration(zzvrt.Int("pause", 0, 30_000_000_000))))
		op := zzvrt.Choice("op", 3)
		d := short
		if op == 1 {
			d = long
		}
		switch op {
		case 0, 1:
			endCurrent() // arming replaces the current timer
			c14mu.Lock()
			c14Timers = append(c14Timers, &c14T{due: zzvrt.Now() + d})
			c14mu.Unlock()
			c.setHandshakeTimer(timeoutTimerTypeWaitForReady, d)
		case 2:
			endCurrent()
			c.stopHandshakeTimer()
		}
	}
	zzvrt.WaitQuiescent()
	zzvrt.Advance(scale(200_000_000_000))
	zzvrt.WaitQuiescent()
	c14mu.Lock()
	if n := len(c14Timers); n > 0 && !c14Timers[n-1].ended {
		zzvrt.Assert(c14Timers[n-1].consumed, "C14.armed-timer-did-not-fire")
	}
	arms := len(c14Timers)
	c14mu.Unlock()
	zzvrt.Assert(c14Delivered <= arms, "C14.more-timeouts-than-armed-timers")
	zzvrt.Assert(zzvrt.NumLive("") == 0, "C14.timer-goroutine-leaked")
	c14Sym = false
	zzvrt.Cover("c14.end")
}

func H_C14_SymTime2() { c14SymTime(2) }
func H_C14_SymTime3() { c14SymTime(3) }

func H_C14_Timer2() { c14Timer(2) }
func H_C14_Timer3() { c14Timer(3) }
func H_C14_Timer4() { c14Timer(4) }
