//go:build verif

package ship

import (
	"time"

	"github.com/enbility/ship-go/zzvrt"
)

// timeout deliveries observed by the harness (handleState is cut to this recorder in the C14 run)
var c14Delivered int

func vHandleState(c *ShipConnection, timeout bool, message []byte) {
	if timeout {
		c14Delivered++
		zzvrt.Log("timeout delivered")
	}
}

// H_C14_Timer: a symbolic program of arm / stop operations, all performed "well before expiry"
// (no timer may elapse until the program is done and every goroutine is parked), then time passes.
// A timeout may be delivered only by the most recently armed timer and only if it was not stopped.
func c14Timer(nops int) {
	e := newEnv(ShipRoleServer, "")
	c := e.c
	c14Delivered = 0
	zzvrt.SetTimers(false)
	armed := false
	arms := 0
	for i := 0; i < nops; i++ {
		if zzvrt.Choice("op", 2) == 0 {
			d := 10 * time.Second
			if !zzvrt.Symbolic() {
				d = 40 * time.Millisecond // native replay: a real, short timer
			}
			c.setHandshakeTimer(timeoutTimerTypeWaitForReady, d)
			armed = true
			arms++
		} else {
			c.stopHandshakeTimer()
			armed = false
		}
	}
	zzvrt.WaitQuiescent()
	zzvrt.SetTimers(true)
	zzvrt.WaitQuiescent()
	want := 0
	if armed {
		want = 1
	}
	zzvrt.Assert(c14Delivered <= want, "C14.stopped-or-replaced-timer-fired")
	zzvrt.Assert(c14Delivered >= want, "C14.armed-timer-did-not-fire")
	zzvrt.Assert(zzvrt.NumLive("setHandshakeTimer$1") == 0, "C14.timer-goroutine-leaked")
	zzvrt.Cover("c14.end")
}

func H_C14_Timer2() { c14Timer(2) }
func H_C14_Timer3() { c14Timer(3) }
func H_C14_Timer4() { c14Timer(4) }
