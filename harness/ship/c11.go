//go:build verif

package ship

import (
	"github.com/enbility/ship-go/model"
	"github.com/enbility/ship-go/zzvrt"
)

var c11Events = []int{evtMsg, evtClose, evtConnErr, evtWritePayload, evtTimeout, evtAbort, evtApprove}

// c11Seq: K events on one live connection (symbolic start state); the end of the connection
// must be reported to the info provider exactly once, whatever combination of causes coincides.
func c11Seq(k int) {
	role := symRole()
	client := role == ShipRoleClient
	e := newEnv(role, "")
	e.info.free = true
	e.w.mayFail = true
	e.w.maxFail = 1
	c := e.c
	pre := zzvrt.Choice("pre.state", 40)
	if !roleStateOK(client, pre) || !isRest(pre) || isTerminal(pre) || pre == 0 {
		zzvrt.Assume(false)
	}
	c.smeState = model.ShipMessageExchangeState(pre)
	if pre == 38 {
		c.dataReader = e.info.reader
	}
	c.handshakeTimerRunning = pre != 38 && zzvrt.Bool("pre.timerRunning")
	for step := 0; step < k; step++ {
		ev := c11Events[zzvrt.Choice("event", len(c11Events))]
		if ev == evtTimeout && !c.handshakeTimerRunning {
			zzvrt.Assume(false)
		}
		if ev == evtMsg && e.w.closed {
			zzvrt.Assume(false)
		}
		if ev == evtConnErr && e.w.closed && e.log.count(evClosed) > 0 {
			zzvrt.Assume(false) // the transport reports its failure once (C13)
		}
		if ev == evtMsg {
			m := zzvrt.Bytes("msg")
			zzvrt.Assume(len(m) >= 2)
			c.HandleIncomingWebsocketMessage(m)
		} else {
			e.doEvent(ev)
		}
		zzvrt.RunAll() // everything the event spawned runs; short delays elapse, handshake timers stay pending (SetTimerLimit in newEnv)
		n := e.log.count(evClosed)
		zzvrt.Assert(n <= 1, "C11.end-reported-twice")
		if e.w.closed {
			zzvrt.Assert(n == 1, "C11.end-not-reported")
		}
		// a handshake that ended (error, local or remote abort) is a connection end too: once the
		// delayed close ran, the end must have been reported and the transport released
		if isTerminal(int(c.smeState)) {
			zzvrt.Assert(n == 1, "C11.handshake-end-not-reported")
			zzvrt.Assert(e.w.closed, "C11.handshake-end-leaves-transport-open")
		}
		zzvrt.Fact("c11", pre, ev, n)
	}
	zzvrt.Cover("c11.end")
}

func H_C11_Seq2() { c11Seq(2) }
func H_C11_Seq3() { c11Seq(3) }
