//go:build verif

package ship

import (
	"errors"
	"sync"
	"time"

	"github.com/enbility/ship-go/api"
	"github.com/enbility/ship-go/model"
	"github.com/enbility/ship-go/zzvrt"
)

// ---- event log shared by the fakes ----

const (
	evState     = iota + 1 // HandleShipHandshakeStateUpdate(state)
	evSetup                // SetupRemoteDevice
	evReportID             // ReportServiceShipID
	evClosed               // HandleConnectionClosed(completed)
	evWrite                // transport write accepted
	evWriteErr             // transport write refused
	evCloseData            // CloseDataConnection(code)
	evDeliver              // HandleShipPayloadMessage
	evGrant                // a trust oracle answered yes
)

type vEvent struct {
	Kind int
	A    int    // state / code / flag
	S    string // id / payload
	B    []byte
}

type vLog struct {
	mu sync.Mutex
	Ev []vEvent
}

func (l *vLog) add(e vEvent) {
	l.mu.Lock()
	l.Ev = append(l.Ev, e)
	l.mu.Unlock()
}

func (l *vLog) count(kind int) int {
	l.mu.Lock()
	defer l.mu.Unlock()
	n := 0
	for _, e := range l.Ev {
		if e.Kind == kind {
			n++
		}
	}
	return n
}

// ---- fake transport ----

type vWriter struct {
	log       *vLog
	closed    bool // transport closed (locally or by failure)
	closeCnt  int
	mayFail   bool // writes may fail / transport may be found closed
	failCount int
	maxFail   int
}

func (w *vWriter) InitDataProcessing(api.WebsocketDataReaderInterface) {}

func (w *vWriter) WriteMessageToWebsocketConnection(m []byte) error {
	if w.closed {
		w.log.add(vEvent{Kind: evWriteErr})
		return errors.New("connection is closed")
	}
	if w.mayFail && w.failCount < w.maxFail && zzvrt.Bool("w.writeerr") {
		w.failCount++
		w.log.add(vEvent{Kind: evWriteErr})
		return errors.New("write failed")
	}
	w.log.add(vEvent{Kind: evWrite, B: m})
	return nil
}

func (w *vWriter) CloseDataConnection(closeCode int, reason string) {
	w.closed = true
	w.closeCnt++
	w.log.add(vEvent{Kind: evCloseData, A: closeCode, S: reason})
}

func (w *vWriter) IsDataConnectionClosed() (bool, error) {
	if !w.closed && w.mayFail && w.failCount < w.maxFail && zzvrt.Bool("w.foundclosed") {
		w.failCount++
		w.closed = true
	}
	if w.closed {
		return true, errors.New("connection is closed")
	}
	return false, nil
}

// ---- fake application reader ----

type vReader struct {
	log *vLog
}

func (r *vReader) HandleShipPayloadMessage(m []byte) {
	r.log.add(vEvent{Kind: evDeliver, B: m})
}

// ---- fake info provider (the hub side) ----

type vInfo struct {
	log     *vLog
	reader  *vReader
	granted bool // ghost: some trust oracle answered yes, or approve happened, or role client
	// fixed answers (when not free)
	free        bool
	paired      bool
	auto        bool
	allowWait   bool
	nilReader   bool
	closedConns int
}

func (i *vInfo) IsRemoteServiceForSKIPaired(string) bool {
	r := i.paired
	if i.free {
		r = zzvrt.Bool("oracle.paired")
	}
	if r {
		i.granted = true
		i.log.add(vEvent{Kind: evGrant})
	}
	return r
}

func (i *vInfo) IsAutoAcceptEnabled() bool {
	r := i.auto
	if i.free {
		r = zzvrt.Bool("oracle.auto")
	}
	if r {
		i.granted = true
		i.log.add(vEvent{Kind: evGrant})
	}
	return r
}

func (i *vInfo) AllowWaitingForTrust(string) bool {
	if i.free {
		return zzvrt.Bool("oracle.allowwait")
	}
	return i.allowWait
}

func (i *vInfo) HandleConnectionClosed(c api.ShipConnectionInterface, completed bool) {
	a := 0
	if completed {
		a = 1
	}
	i.closedConns++
	i.log.add(vEvent{Kind: evClosed, A: a})
}

func (i *vInfo) ReportServiceShipID(ski string, id string) {
	i.log.add(vEvent{Kind: evReportID, S: id})
}

func (i *vInfo) HandleShipHandshakeStateUpdate(ski string, st model.ShipState) {
	i.log.add(vEvent{Kind: evState, A: int(st.State)})
}

func (i *vInfo) SetupRemoteDevice(ski string, w api.ShipConnectionDataWriterInterface) api.ShipConnectionDataReaderInterface {
	i.log.add(vEvent{Kind: evSetup})
	return i.reader
}

// ---- connection under test ----

type vEnv struct {
	c    *ShipConnection
	w    *vWriter
	info *vInfo
	log  *vLog
}

const (
	vSKI     = "aaaa"
	vLocalID = "local-id"
)

// newEnv builds a connection in its initial state (as NewConnectionHandler would) on fakes.
func newEnv(role shipRole, remoteShipID string) *vEnv {
	// the library's own short delays (delayed close <= 1 s) elapse when spawned goroutines run; handshake timers
	// (>= 10 s or symbolic) never fire by themselves - a timeout is an explicit event of the harness
	zzvrt.SetTimerLimit(time.Second)
	log := &vLog{}
	w := &vWriter{log: log}
	info := &vInfo{log: log, reader: &vReader{log: log}}
	c := NewConnectionHandler(info, w, role, vLocalID, vSKI, remoteShipID)
	if role == ShipRoleClient {
		info.granted = true
	}
	return &vEnv{c: c, w: w, info: info, log: log}
}

func symRole() shipRole {
	if zzvrt.Bool("role.client") {
		return ShipRoleClient
	}
	return ShipRoleServer
}

// symPre overwrites the connection's fields with an arbitrary pre-state.
func (e *vEnv) symPre(maxBuf int) {
	c := e.c
	c.smeState = model.ShipMessageExchangeState(zzvrt.Choice("pre.state", 40))
	c.handshakeTimerRunning = zzvrt.Bool("pre.timerRunning")
	c.handshakeTimerType = timeoutTimerType(zzvrt.Int("pre.timerType", 0, 2))
	c.lastReceivedWaitingValue = time.Duration(zzvrt.Int("pre.lastWaiting", 0, 1<<40))
	if zzvrt.Bool("pre.shutdownDone") {
		c.shutdownOnce.Do(func() {})
	}
	if zzvrt.Bool("pre.hasReader") {
		c.dataReader = e.info.reader
	}
	n := zzvrt.Choice("pre.buflen", maxBuf+1)
	for k := 0; k < n; k++ {
		c.spineBuffer = append(c.spineBuffer, zzvrt.Bytes("pre.buf"))
	}
	e.w.closed = zzvrt.Bool("pre.transportClosed")
}

// event kinds
const (
	evtMsg = iota
	evtTimeout
	evtApprove
	evtAbort
	evtConnErr
	evtClose
	evtWritePayload
	evtRun
	evtCount
)

// doEvent performs one externally triggered event on the connection.
func (e *vEnv) doEvent(kind int) {
	c := e.c
	switch kind {
	case evtMsg:
		m := zzvrt.Bytes("msg")
		zzvrt.Assume(len(m) >= 2) // the read pump drops shorter frames (ws.checkWebsocketMessage)
		c.HandleIncomingWebsocketMessage(m)
	case evtTimeout:
		// body of the timer goroutine after its wait elapsed
		c.setHandshakeTimerRunning(false)
		c.handleState(true, nil)
	case evtApprove:
		e.info.granted = true
		c.ApprovePendingHandshake()
	case evtAbort:
		c.AbortPendingHandshake()
	case evtConnErr:
		e.w.closed = true
		c.ReportConnectionError(errors.New("transport error"))
	case evtClose:
		c.CloseConnection(zzvrt.Bool("close.safe"), zzvrt.Int("close.code", 0, 5000), zzvrt.Str("close.reason"))
	case evtWritePayload:
		c.WriteShipMessageWithPayload(zzvrt.Bytes("payload"))
	case evtRun:
		c.Run()
	}
}
