//go:build verif

package ship

import (
	"errors"
	"time"

	"github.com/enbility/ship-go/api"
	"github.com/enbility/ship-go/zzvrt"
)

// ---- two endpoints connected by two FIFO queues ----

type pEnd struct {
	name      string
	c         *ShipConnection
	info      *vInfo
	log       *vLog
	inbox     [][]byte // frames on their way to this endpoint
	closed    bool     // this side's transport is closed
	peer      *pEnd
	peerKnows bool // the peer has been told about this side's closure
}

// pWriter: the transport of one endpoint; a write puts the frame into the peer's inbox.
type pWriter struct{ me *pEnd }

func (w *pWriter) InitDataProcessing(api.WebsocketDataReaderInterface) {}
func (w *pWriter) WriteMessageToWebsocketConnection(m []byte) error {
	if w.me.closed {
		return errors.New("connection is closed")
	}
	if !w.me.peer.closed {
		w.me.peer.inbox = append(w.me.peer.inbox, m)
	}
	w.me.log.add(vEvent{Kind: evWrite, B: m})
	return nil
}
func (w *pWriter) CloseDataConnection(code int, reason string) {
	w.me.closed = true
	w.me.inbox = nil
	w.me.log.add(vEvent{Kind: evCloseData, A: code})
}
func (w *pWriter) IsDataConnectionClosed() (bool, error) {
	if w.me.closed {
		return true, errors.New("connection is closed")
	}
	return false, nil
}

func newPair(serverKnowsID, clientKnowsID bool) (*pEnd, *pEnd) {
	zzvrt.SetTimerLimit(time.Second)
	cl := &pEnd{name: "client", log: &vLog{}}
	sv := &pEnd{name: "server", log: &vLog{}}
	cl.peer, sv.peer = sv, cl
	cl.info = &vInfo{log: cl.log, reader: &vReader{log: cl.log}, granted: true}
	sv.info = &vInfo{log: sv.log, reader: &vReader{log: sv.log}}
	cid, sid := "", ""
	if clientKnowsID {
		cid = "id-of-server"
	}
	if serverKnowsID {
		sid = "id-of-client"
	}
	cl.c = NewConnectionHandler(cl.info, &pWriter{me: cl}, ShipRoleClient, "id-of-client", "ski-server", cid)
	sv.c = NewConnectionHandler(sv.info, &pWriter{me: sv}, ShipRoleServer, "id-of-server", "ski-client", sid)
	return cl, sv
}

func (p *pEnd) afterEvent() {
	zzvrt.RunAll() // everything the event spawned runs; short delays elapse, handshake timers stay pending (SetTimerLimit in newEnv)
}

func (p *pEnd) deliver() {
	m := p.inbox[0]
	p.inbox = p.inbox[1:]
	p.c.HandleIncomingWebsocketMessage(m)
	p.afterEvent()
}

func (p *pEnd) timeout() {
	p.c.handshakeTimerMux.Lock()
	p.c.handshakeTimerRunning = false
	p.c.handshakeTimerMux.Unlock()
	p.c.handleState(true, nil)
	p.afterEvent()
}

// the peer's transport closed: this side gets a connection error (once)
func (p *pEnd) learnPeerClosed() {
	p.peer.peerKnows = true
	if p.closed {
		return
	}
	p.closed = true
	p.inbox = nil
	p.c.ReportConnectionError(errors.New("peer closed the connection"))
	p.afterEvent()
}

func (p *pEnd) state() int { return int(p.c.smeState) }

func (p *pEnd) ended() bool { return p.closed }

const (
	c03DeliverS = iota
	c03DeliverC
	c03TimeoutS
	c03TimeoutC
	c03Approve
	c03Cancel
	c03CloseToS
	c03CloseToC
	c03CancelReadyC // the client-side user cancels the pairing while the client waits in ready-listen
	c03CancelReadyS // the server-side user cancels while the (trusted) server waits in ready-listen
	c03Kinds
)

// c03Run: trust configuration of the server, then a schedule of up to maxSteps events.
// timely: a timer fires only when nothing else can happen. userAt: the user's decision (approve / cancel / none) may
// be given at any step while the request is pending.
func c03Run(maxSteps int, timely bool) {
	cl, sv := newPair(zzvrt.Bool("server.knowsid"), zzvrt.Bool("client.knowsid"))
	trust := zzvrt.Choice("server.trust", 3) // 0 paired, 1 auto-accept, 2 neither
	sv.info.paired = trust == 0
	sv.info.auto = trust == 1
	sv.info.allowWait = trust != 2 || zzvrt.Bool("server.allowwait")
	user := zzvrt.Choice("user", 3) // 0 approves, 1 cancels, 2 never answers
	userDone := false
	// a cancel (hub.CancelPairingWithSKI -> AbortPendingHandshake) on a side that is waiting in ready-listen
	lateCancel := zzvrt.Choice("cancel.readylisten", 3) // 0 never, 1 client side, 2 server side
	lateCancelDone := false
	serverDeliveries := 0
	earlyApprove := false // ghost: the user approved before the client's hello reached the server
	timeouts := 0
	maxTimeouts := zzvrt.Param("maxtimeouts", 2)
	sv.c.Run()
	cl.c.Run()
	steps := 0
	for ; steps < maxSteps; steps++ {
		var en []int
		if len(sv.inbox) > 0 && !sv.closed {
			en = append(en, c03DeliverS)
		}
		if len(cl.inbox) > 0 && !cl.closed {
			en = append(en, c03DeliverC)
		}
		if sv.closed && !sv.peerKnows {
			en = append(en, c03CloseToC)
		}
		if cl.closed && !cl.peerKnows {
			en = append(en, c03CloseToS)
		}
		if !userDone && user != 2 && sv.state() == 11 && !sv.closed {
			if user == 0 {
				en = append(en, c03Approve)
			} else {
				en = append(en, c03Cancel)
			}
		}
		if !lateCancelDone && lateCancel == 1 && cl.state() == 8 && !cl.closed {
			en = append(en, c03CancelReadyC)
		}
		if !lateCancelDone && lateCancel == 2 && sv.state() == 8 && !sv.closed {
			en = append(en, c03CancelReadyS)
		}
		busy := len(en) > 0
		if (!timely || !busy) && timeouts < maxTimeouts {
			if sv.c.handshakeTimerRunning && !sv.closed {
				en = append(en, c03TimeoutS)
			}
			if cl.c.handshakeTimerRunning && !cl.closed {
				en = append(en, c03TimeoutC)
			}
		}
		if len(en) == 0 {
			break
		}
		ev := en[zzvrt.Choice("ev", len(en))]
		zzvrt.Fact("c03ev", ev, sv.state(), cl.state())
		switch ev {
		case c03DeliverS:
			serverDeliveries++
			sv.deliver()
		case c03DeliverC:
			cl.deliver()
		case c03TimeoutS:
			timeouts++
			sv.timeout()
		case c03TimeoutC:
			timeouts++
			cl.timeout()
		case c03Approve:
			userDone = true
			earlyApprove = serverDeliveries < 2 // only the init frame was processed so far
			sv.info.paired = true               // RegisterRemoteSKI sets trust, then approves the pending connection
			sv.c.ApprovePendingHandshake()
			sv.afterEvent()
		case c03Cancel:
			userDone = true
			sv.c.AbortPendingHandshake()
			sv.afterEvent()
		case c03CancelReadyC:
			lateCancelDone = true
			cl.c.AbortPendingHandshake()
			cl.afterEvent()
		case c03CancelReadyS:
			lateCancelDone = true
			sv.info.paired = false // CancelPairingWithSKI removes the trust, then aborts
			sv.c.AbortPendingHandshake()
			sv.afterEvent()
		case c03CloseToC:
			cl.learnPeerClosed()
		case c03CloseToS:
			sv.learnPeerClosed()
		}
	}
	if steps >= maxSteps {
		zzvrt.Cover("c03.step-bound-reached")
		return // not quiescent within the bound: outside the claim
	}
	// ---- quiescent: queues empty (or sides closed), nothing enabled ----
	sComplete, cComplete := sv.state() == 38 && !sv.closed, cl.state() == 38 && !cl.closed
	bothComplete := sComplete && cComplete
	bothEnded := sv.closed && cl.closed
	timersLeft := (sv.c.handshakeTimerRunning && !sv.closed) || (cl.c.handshakeTimerRunning && !cl.closed)
	if !timersLeft {
		zzvrt.Assert(bothComplete || bothEnded, "C03.sides-disagree-at-quiescence")
	}
	// a side that has ended closed its own transport handle and reported its end exactly once
	for _, p := range []*pEnd{sv, cl} {
		if p.closed {
			zzvrt.Assert(p.log.count(evCloseData) >= 1, "C03.ended-side-never-closed-its-transport")
			zzvrt.Assert(p.log.count(evClosed) == 1, "C03.ended-side-did-not-report-its-end-once")
		}
	}
	trusted := (trust != 2 || (user == 0 && userDone)) && !lateCancelDone
	if lateCancelDone {
		// a pairing cancelled while a side was waiting for the other's decision never completes, on either side
		zzvrt.Assert(!sComplete && !cComplete, "C03.completed-after-cancel")
		zzvrt.Assert(sv.log.count(evSetup) == 0 && cl.log.count(evSetup) == 0, "C03.setup-after-cancel")
	}
	if timely && lateCancel == 0 && (trust != 2 || (user == 0 && sv.info.allowWait)) {
		// messages arrive in time and trust is (or gets) granted: nobody may need a timeout, both sides complete
		zzvrt.Assert(timeouts == 0, "C03.trusted-pair-stalled-until-a-timeout")
		if earlyApprove {
			zzvrt.Assert(bothComplete, "C03.approval-before-the-peers-hello-breaks-the-handshake")
		} else {
			zzvrt.Assert(bothComplete, "C03.trusted-pair-did-not-complete")
		}
	}
	if bothComplete {
		zzvrt.Assert(sv.log.count(evSetup) == 1 && cl.log.count(evSetup) == 1, "C03.setup-not-exactly-once")
		zzvrt.Assert(sv.c.remoteShipID == "id-of-client" && cl.c.remoteShipID == "id-of-server", "C03.ship-id-not-learned")
		zzvrt.Assert(trusted, "C03.completed-without-trust")
	}
	if !trusted && !lateCancelDone {
		zzvrt.Assert(!sComplete && !cComplete, "C03.completed-without-trust")
		zzvrt.Assert(sv.log.count(evSetup) == 0, "C03.setup-without-trust")
	}
	zzvrt.Fact("c03end", sv.state(), cl.state(), b2i(bothEnded))
	zzvrt.Cover("c03.end")
}

func H_C03_Timely()    { c03Run(40, true) }
func H_C03_Arbitrary() { c03Run(40, false) }
