//go:build verif

package util

import (
	"strings"

	"github.com/enbility/ship-go/zzvrt"
)

// String-level facts about the real NormalizeSKI. One symbolic string per query (bounded length);
// characters are bytes < 0x80 (ASCII spellings; Go's Unicode-aware ToLower is outside).

func H_C15_Lemma_Idem() {
	a := zzvrt.Str("a")
	na := NormalizeSKI(a)
	zzvrt.Assert(NormalizeSKI(na) == na, "C15.lemma-idempotent")
	zzvrt.Assert(!strings.Contains(na, " ") && !strings.Contains(na, "-"), "C15.lemma-no-separators")
	zzvrt.Assert(strings.ToLower(na) == na, "C15.lemma-lowercase")
	zzvrt.Cover("lemma.end")
}

func H_C15_Lemma_Sep() {
	a := zzvrt.StrMax("a", 4)
	b := zzvrt.StrMax("b", 4)
	zzvrt.Assert(NormalizeSKI(a+" "+b) == NormalizeSKI(a+b), "C15.lemma-space")
	zzvrt.Assert(NormalizeSKI(a+"-"+b) == NormalizeSKI(a+b), "C15.lemma-dash")
	zzvrt.Cover("lemma.end")
}

func H_C15_Lemma_Case() {
	a := zzvrt.Str("a")
	zzvrt.Assert(NormalizeSKI(strings.ToUpper(a)) == NormalizeSKI(a), "C15.lemma-case")
	zzvrt.Cover("lemma.end")
}
