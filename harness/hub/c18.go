//go:build verif

package hub

import (
	"errors"

	"github.com/enbility/ship-go/api"
	"github.com/enbility/ship-go/model"
	"github.com/enbility/ship-go/zzvrt"
)

func symState(tag string) model.ShipState {
	sv := zzvrt.Choice(tag, 40)
	if !isReportable(sv) {
		zzvrt.Assume(false)
	}
	st := model.ShipState{State: model.ShipMessageExchangeState(sv)}
	if zzvrt.Bool(tag + ".err") {
		st.Error = errors.New("handshake error")
	}
	return st
}

func lastDetail(e *hEnv) (int, bool) {
	last, ok := 0, false
	for _, ev := range e.log.Ev {
		if ev.Kind == hvPairingDetail {
			last, ok = ev.A, true
		}
	}
	return last, ok
}

// H_C18_Seq: k state reports for one SKI, notification closures fired in creation order:
// the stored detail is the map of the last report and the last delivered notification equals what the hub answers when asked.
func H_C18_Seq() {
	e := newHubEnv()
	h := e.h
	svc := e.addService(skiA, "A")
	k := 2
	var last model.ShipState
	notified := false
	for i := 0; i < k; i++ {
		last = symState("st")
		h.HandleShipHandshakeStateUpdate(skiA, last)
		if zzvrt.RunAll() > 0 {
			notified = true
		}
	}
	want := h.mapShipMessageExchangeState(last.State, skiA)
	if last.Error != nil {
		want = api.ConnectionStateError
	}
	zzvrt.Assert(svc.ConnectionStateDetail().State() == want, "C18.stored-detail-differs-from-last-report")
	zzvrt.Assert(h.PairingDetailForSki(skiA).State() == want, "C18.query-differs-from-last-report")
	if notified {
		got, ok := lastDetail(e)
		zzvrt.Assert(ok && got == int(want), "C18.last-notification-differs-from-current-state")
	}
	if last.State == model.SmeHelloStateOk {
		zzvrt.Assert(svc.Trusted(), "C18.hello-ok-not-trusted")
	}
	zzvrt.Cover("hub.end")
}

// H_C18_Pending: k state reports arrive while the notification of an earlier one is still pending (its 500 ms delay
// has not elapsed); afterwards all delays elapse (closures in creation order). If the state the hub reports differs from
// what the application last saw, the application must have been told.
func H_C18_Pending() {
	e := newHubEnv()
	h := e.h
	svc := e.addService(skiA, "A")
	initial := svc.ConnectionStateDetail().State()
	var last model.ShipState
	for i := 0; i < 2; i++ {
		last = symState("st")
		h.HandleShipHandshakeStateUpdate(skiA, last)
	}
	zzvrt.RunAll()
	want := h.mapShipMessageExchangeState(last.State, skiA)
	if last.Error != nil {
		want = api.ConnectionStateError
	}
	zzvrt.Assert(h.PairingDetailForSki(skiA).State() == want, "C18.query-differs-from-last-report")
	seen := int(initial)
	if got, ok := lastDetail(e); ok {
		seen = got
	}
	zzvrt.Assert(seen == int(want), "C18.application-never-told-the-current-state")
	zzvrt.Cover("hub.end")
}

// H_C18_Api: a state report whose notification is still in its delay, then a pairing API call for the same SKI (register,
// unregister, cancel: they change the stored detail in place and notify at once), then the delay elapses: the last
// notification the application received shows the state the hub reports when asked.
func H_C18_Api() {
	e := newHubEnv()
	h := e.h
	svc := e.addService(skiA, "A")
	h.hasStarted = zzvrt.Bool("hub.started")
	initial := svc.ConnectionStateDetail().State()
	n := 1 + zzvrt.Choice("reports", 2)
	for i := 0; i < n; i++ {
		h.HandleShipHandshakeStateUpdate(skiA, symState("st"))
	}
	switch zzvrt.Choice("api", 3) {
	case 0:
		h.RegisterRemoteSKI(skiA)
	case 1:
		h.UnregisterRemoteSKI(skiA)
	case 2:
		h.CancelPairingWithSKI(skiA)
	}
	zzvrt.RunAll()
	want := h.PairingDetailForSki(skiA).State()
	seen := int(initial)
	if got, ok := lastDetail(e); ok {
		seen = got
	}
	zzvrt.Assert(seen == int(want), "C18.last-notification-differs-from-current-state")
	zzvrt.Cover("hub.end")
}

// H_C18_Order: two state changes, both notification goroutines' delays have elapsed, every scheduling of the two:
// the newest state is what the application has seen last.
func H_C18_Order() {
	e := newHubEnv()
	h := e.h
	svc := e.addService(skiA, "A")
	svc.ConnectionStateDetail().SetState(api.ConnectionStateNone)
	h.HandleShipHandshakeStateUpdate(skiA, model.ShipState{State: model.SmeHelloStateReadyListen}) // in progress
	h.HandleShipHandshakeStateUpdate(skiA, model.ShipState{State: model.SmeStateComplete})         // completed
	zzvrt.WaitQuiescent()
	got, ok := lastDetail(e)
	zzvrt.Assert(ok, "C18.no-notification")
	zzvrt.Assert(!ok || got == int(api.ConnectionStateCompleted), "C18.older-state-delivered-after-newer")
	zzvrt.Cover("hub.end")
}
