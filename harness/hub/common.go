//go:build verif

package hub

import (
	"crypto/tls"
	"errors"
	"sync"

	"github.com/enbility/ship-go/api"
	"github.com/enbility/ship-go/model"
	"github.com/enbility/ship-go/zzvrt"
)

const (
	hvRegister = iota + 1 // hubReader / mdns / connection calls, in order
	hvConnected
	hvDisconnected
	hvSetup
	hvVisible
	hvShipID
	hvPairingDetail
	hvMdnsAnnounce
	hvMdnsRequest
	hvMdnsSetAuto
	hvMdnsShutdown
	hvConnClose
	hvConnApprove
	hvConnAbort
	hvDial
	hvDialFailed
)

type hEvent struct {
	Kind int
	S    string
	A    int
	B    bool
	C    *vConn
}

type hLog struct {
	mu sync.Mutex
	Ev []hEvent
}

func (l *hLog) add(e hEvent) {
	l.mu.Lock()
	l.Ev = append(l.Ev, e)
	l.mu.Unlock()
}
func (l *hLog) count(kind int) int {
	l.mu.Lock()
	defer l.mu.Unlock()
	n := 0
	for _, e := range l.Ev {
		if e.Kind == kind {
			n++
		}
	}
	return n
}

// ---- fake application (HubReaderInterface) ----

type vHubReader struct{ log *hLog }

func (r *vHubReader) RemoteSKIConnected(ski string) { r.log.add(hEvent{Kind: hvConnected, S: ski}) }
func (r *vHubReader) RemoteSKIDisconnected(ski string) {
	r.log.add(hEvent{Kind: hvDisconnected, S: ski})
}
func (r *vHubReader) SetupRemoteDevice(ski string, w api.ShipConnectionDataWriterInterface) api.ShipConnectionDataReaderInterface {
	r.log.add(hEvent{Kind: hvSetup, S: ski})
	return nil
}
func (r *vHubReader) VisibleRemoteServicesUpdated(entries []api.RemoteService) {
	r.log.add(hEvent{Kind: hvVisible, A: len(entries)})
}
func (r *vHubReader) ServiceShipIDUpdate(ski string, shipID string) {
	r.log.add(hEvent{Kind: hvShipID, S: ski})
}
func (r *vHubReader) ServicePairingDetailUpdate(ski string, detail *api.ConnectionStateDetail) {
	r.log.add(hEvent{Kind: hvPairingDetail, S: ski, A: int(detail.State())})
}
func (r *vHubReader) AllowWaitingForTrust(ski string) bool { return zzvrt.Bool("app.allowwait") }

// ---- fake mDNS ----

type vMdns struct{ log *hLog }

func (m *vMdns) Start(cb api.MdnsReportInterface) error { return nil }
func (m *vMdns) Shutdown()                              { m.log.add(hEvent{Kind: hvMdnsShutdown}) }
func (m *vMdns) AnnounceMdnsEntry() error               { m.log.add(hEvent{Kind: hvMdnsAnnounce}); return nil }
func (m *vMdns) UnannounceMdnsEntry()                   {}
func (m *vMdns) SetAutoAccept(b bool)                   { m.log.add(hEvent{Kind: hvMdnsSetAuto, B: b}) }
func (m *vMdns) QRCodeText() string                     { return "" }
func (m *vMdns) RequestMdnsEntries()                    { m.log.add(hEvent{Kind: hvMdnsRequest}) }

// ---- fake transport handle + fake ship connection ----

type vHandler struct{ id int }

func (h *vHandler) InitDataProcessing(api.WebsocketDataReaderInterface) {}
func (h *vHandler) WriteMessageToWebsocketConnection([]byte) error      { return nil }
func (h *vHandler) CloseDataConnection(int, string)                     {}
func (h *vHandler) IsDataConnectionClosed() (bool, error)               { return false, nil }

type vConn struct {
	log     *hLog
	ski     string
	handler *vHandler
	state   model.ShipMessageExchangeState
	err     error
	closed  int
}

func (c *vConn) DataHandler() api.WebsocketDataWriterInterface { return c.handler }
func (c *vConn) CloseConnection(safe bool, code int, reason string) {
	c.log.mu.Lock()
	c.closed++
	c.log.mu.Unlock()
	c.log.add(hEvent{Kind: hvConnClose, S: c.ski, A: code, B: safe, C: c})
}
func (c *vConn) RemoteSKI() string        { return c.ski }
func (c *vConn) ApprovePendingHandshake() { c.log.add(hEvent{Kind: hvConnApprove, S: c.ski, C: c}) }
func (c *vConn) AbortPendingHandshake()   { c.log.add(hEvent{Kind: hvConnAbort, S: c.ski, C: c}) }
func (c *vConn) ShipHandshakeState() (model.ShipMessageExchangeState, error) {
	return c.state, c.err
}

// ---- hub under test ----

type hEnv struct {
	h      *Hub
	log    *hLog
	reader *vHubReader
	mdns   *vMdns
}

const hLocalSKI = "5555555555555555555555555555555555555555"

func newHubEnv() *hEnv {
	log := &hLog{}
	r := &vHubReader{log: log}
	m := &vMdns{log: log}
	local := api.NewServiceDetails(hLocalSKI)
	local.SetShipID("local-ship-id")
	h := NewHub(r, m, 4711, tls.Certificate{}, local)
	return &hEnv{h: h, log: log, reader: r, mdns: m}
}

func (e *hEnv) newConn(ski string, state model.ShipMessageExchangeState, id int) *vConn {
	return &vConn{log: e.log, ski: ski, handler: &vHandler{id: id}, state: state}
}

// addService puts a service record for a canonical ski into the hub with symbolic attributes.
func (e *hEnv) addService(ski string, tag string) *api.ServiceDetails {
	s := api.NewServiceDetails(ski)
	s.SetTrusted(zzvrt.Bool(tag + ".trusted"))
	s.ConnectionStateDetail().SetState(api.ConnectionState(zzvrt.Int(tag+".cstate", 0, 9)))
	e.h.remoteServices[ski] = s
	return s
}

// vDial replaces Hub.connectFoundService in the engine (cut "call:"): the dial is a ghost event.
func vDial(h *Hub, remoteService *api.ServiceDetails, host, port, path string) error {
	lg := h.mdns.(*vMdns).log
	lg.add(hEvent{Kind: hvDial, S: remoteService.SKI(), B: remoteService.Trusted(), A: int(remoteService.ConnectionStateDetail().State())})
	if zzvrt.Bool("dial.fails") {
		lg.add(hEvent{Kind: hvDialFailed, S: remoteService.SKI()})
		return errors.New("dial failed")
	}
	return nil
}
