//go:build verif

package hub

import (
	"github.com/enbility/ship-go/api"
	"github.com/enbility/ship-go/model"
	"github.com/enbility/ship-go/zzvrt"
)

// H_C20_Hub: two hub entry points on two goroutines (application call / connection callback / mDNS report / delayed
// dial) over one shared hub; the engine records every heap access with the locks held and reports conflicting pairs.
func H_C20_Hub() {
	// a representative shared state: A is trusted with a registered connection and an attempt counter, B is unknown
	p := &hubPre{e: newHubEnv()}
	p.sA = api.NewServiceDetails(skiA)
	p.sA.SetTrusted(true)
	p.e.h.remoteServices[skiA] = p.sA
	p.sB = api.NewServiceDetails(skiB)
	p.e.h.remoteServices[skiB] = p.sB
	p.e.h.hasStarted = true
	if zzvrt.Bool("A.connected") {
		p.cA = p.e.newConn(skiA, model.SmeHelloStatePendingListen, 1)
		p.e.h.connections[skiA] = p.cA
	}
	p.e.h.connectionAttemptCounter[skiA] = 1
	a := zzvrt.Choice("op.a", opCount)
	b := zzvrt.Choice("op.b", opCount)
	if b < a {
		zzvrt.Assume(false) // unordered pairs
	}
	// the second operation works on the same service, on another known one, or on a SKI the hub has never seen
	// (its first lookup inserts a record into the registry while the first operation reads it)
	xa, xb := skiA, skiA
	switch zzvrt.Choice("op.b.ski", 3) {
	case 1:
		xb = skiB
	case 2:
		xb = "cccccccccccccccccccccccccccccccccccccccc"
	}
	zzvrt.StartAccessLog()
	go func() { p.doOp(a, xa) }()
	p.doOp(b, xb)
	zzvrt.WaitQuiescent()
	zzvrt.Cover("c20.end")
}
