//go:build verif

package hub

import (
	"errors"
	"net"

	"github.com/enbility/ship-go/api"
	"github.com/enbility/ship-go/model"
	"github.com/enbility/ship-go/zzvrt"
)

const (
	skiA = "aaaaaaaaaaaaaaaaaaaaaaaaaaaaaaaaaaaaaaaa"
	skiB = "bbbbbbbbbbbbbbbbbbbbbbbbbbbbbbbbbbbbbbbb"
)

// hubPre: an arbitrary hub state over the two remote SKIs A and B.
type hubPre struct {
	e                *hEnv
	sA, sB           *api.ServiceDetails
	cA               *vConn // registered connection of A (nil: none)
	intentA          bool   // ghost: user registered A and has not unregistered / cancelled since
	helloOkA         bool   // ghost: a live connection of A reached hello-ok
	trustA0          bool
	trustB0          bool
	stateA0          api.ConnectionState
	stateB0          api.ConnectionState
	counterA         bool
	connStateA       model.ShipMessageExchangeState
	attemptRunningA  bool
	mdnsHadA         bool
	closedRegistered bool
	shipIDA0         string // SHIP ID the application supplied for A ("" = none)
	reportedState    int    // ship state carried by the state update of this step
	delayedCounter   int    // counter carried by the delayed dial of this step
	counterA0        int
}

func newHubPre(withConn bool) *hubPre {
	p := &hubPre{e: newHubEnv()}
	e := p.e
	p.sA = e.addService(skiA, "A")
	p.sB = e.addService(skiB, "B")
	p.trustA0, p.trustB0 = p.sA.Trusted(), p.sB.Trusted()
	p.stateA0, p.stateB0 = p.sA.ConnectionStateDetail().State(), p.sB.ConnectionStateDetail().State()
	e.h.autoaccept = zzvrt.Bool("hub.autoaccept")
	e.h.hasStarted = zzvrt.Bool("hub.started")
	if withConn && zzvrt.Bool("A.connected") {
		p.connStateA = model.ShipMessageExchangeState(zzvrt.Int("A.connstate", 0, 39))
		p.cA = e.newConn(skiA, p.connStateA, 1)
		e.h.connections[skiA] = p.cA
	}
	if zzvrt.Bool("A.hascounter") {
		p.counterA = true
		p.counterA0 = zzvrt.Int("A.counter", 0, 2)
		e.h.connectionAttemptCounter[skiA] = p.counterA0
	}
	if zzvrt.Bool("A.attemptRunning") {
		e.h.connectionAttemptRunning[skiA] = true
		p.attemptRunningA = true
	}
	// the application supplied a SHIP ID for A (nothing in the hub branches on it, so no case split is needed)
	p.shipIDA0 = "pinned-ship-id-of-A"
	p.sA.SetShipID(p.shipIDA0)
	p.intentA = zzvrt.Bool("A.intent")
	p.helloOkA = zzvrt.Bool("A.helloOk")
	// invariant: trust or a queued dial request come from the user's registration or from a hello-ok
	zzvrt.Assume(!(p.trustA0 || p.stateA0 == api.ConnectionStateQueued) || p.intentA || p.helloOkA)
	zzvrt.Assume(!p.helloOkA || p.trustA0 || !p.intentA || true)
	return p
}

func mdnsEntry(ski string) *api.MdnsEntry {
	return &api.MdnsEntry{Name: "n", Ski: ski, Identifier: "id", Path: "/ship/", Register: zzvrt.Bool("mdns.register"),
		Host: "host", Port: 4712, Addresses: []net.IP{}}
}

const (
	opRegister = iota
	opUnregister
	opCancel
	opDisconnect
	opSetAuto
	opStateUpdate
	opConnClosed
	opReportMdns
	opDelayedDial
	opPairedQuery
	opAllowWait
	opPairingDetail
	opShutdown
	opCount
)

// doOp performs one hub operation on SKI x (A or B).
func (p *hubPre) doOp(op int, x string) {
	h := p.e.h
	switch op {
	case opRegister:
		h.RegisterRemoteSKI(x)
	case opUnregister:
		h.UnregisterRemoteSKI(x)
	case opCancel:
		h.CancelPairingWithSKI(x)
	case opDisconnect:
		h.DisconnectSKI(x, "reason")
	case opSetAuto:
		h.SetAutoAccept(zzvrt.Bool("op.auto"))
	case opStateUpdate:
		sv := zzvrt.Choice("op.state", 40)
		p.reportedState = sv
		if !isReportable(sv) {
			zzvrt.Assume(false) // a connection only reports states it enters; InitStart and the unused constants are never entered (C04)
		}
		st := model.ShipState{State: model.ShipMessageExchangeState(sv)}
		if zzvrt.Bool("op.haserr") {
			st.Error = errors.New("some error")
		}
		h.HandleShipHandshakeStateUpdate(x, st)
	case opConnClosed:
		c := p.e.newConn(x, model.SmeStateComplete, 2)
		if p.cA != nil && x == skiA && zzvrt.Bool("op.closeRegistered") {
			c = p.cA
			p.closedRegistered = true
		}
		h.HandleConnectionClosed(c, zzvrt.Bool("op.completed"))
	case opReportMdns:
		entries := map[string]*api.MdnsEntry{}
		if zzvrt.Bool("mdns.hasA") {
			entries[skiA] = mdnsEntry(skiA)
			p.mdnsHadA = true
		}
		if zzvrt.Bool("mdns.hasB") {
			entries[skiB] = mdnsEntry(skiB)
		}
		h.ReportMdnsEntries(entries, zzvrt.Bool("mdns.new"))
	case opDelayedDial:
		// a delayed dial attempt scheduled by an earlier mDNS report (any counter value)
		p.delayedCounter = zzvrt.Int("op.counter", 0, 2)
		h.prepareConnectionInitation(x, p.delayedCounter, mdnsEntry(x))
	case opPairedQuery:
		r := h.IsRemoteServiceForSKIPaired(x)
		zzvrt.Assert(r == h.ServiceForSKI(x).Trusted(), "C01.paired-query-differs-from-trust")
	case opAllowWait:
		tr := h.ServiceForSKI(x).Trusted()
		r := h.AllowWaitingForTrust(x)
		zzvrt.Assert(!tr || r, "C01.allowwait-trusted")
	case opPairingDetail:
		_ = h.PairingDetailForSki(x)
	case opShutdown:
		h.Shutdown()
	}
	// goroutines: direct dial for queued services, delayed dial, delayed notification
	zzvrt.RunAll()
}

func isReportable(s int) bool {
	switch s {
	case 0, 9, 12, 23, 28, 29, 30, 32, 33, 34, 35:
		return false
	}
	return true
}

// displayForm: the SKI as users see and type it (upper case, grouped)
func displayForm(x string) string {
	if x == skiA {
		return "AAAA AAAA-AAAA AAAA-AAAA AAAA-AAAA AAAA-AAAA AAAA"
	}
	return "BBBB BBBB-BBBB BBBB-BBBB BBBB-BBBB BBBB-BBBB BBBB"
}

func symSKI() string {
	if zzvrt.Bool("op.onA") {
		return skiA
	}
	return skiB
}

// H_Hub_Step: one hub operation from an arbitrary state; oracles of C01 (hub part) and C10.
func H_Hub_Step() {
	p := newHubPre(true)
	h := p.e.h
	op := zzvrt.Choice("op", opCount)
	x := symSKI()
	down := zzvrt.Bool("hub.down") // Shutdown was called earlier
	if down {
		h.Shutdown()
		p.e.log.Ev = nil
	}
	// operations the application calls take the SKI in any spelling (C15); everything else carries the canonical form
	arg := x
	switch op {
	case opRegister, opUnregister, opCancel, opDisconnect, opPairedQuery, opAllowWait, opPairingDetail:
		if zzvrt.Bool("op.displayform") {
			arg = displayForm(x)
		}
	}
	p.doOp(op, arg)
	onA := x == skiA

	// ---- C09 (hub part): a SHIP ID the application supplied is never replaced by the hub (mDNS identifiers, reports)
	if p.shipIDA0 != "" {
		zzvrt.Assert(p.sA.ShipID() == p.shipIDA0, "C09.pinned-ship-id-changed-by-the-hub")
	}

	// ---- C01 (hub part): trust is only switched on by register or by a hello-ok report
	// (a state report switches trust on only when it is hello-ok, the state a connection reaches after the local side
	// granted trust; no other state - in particular none the remote can cause while a request is pending - does)
	helloOk := int(model.SmeHelloStateOk)
	if !p.trustA0 && p.sA.Trusted() {
		ok := (op == opRegister && onA) || (op == opStateUpdate && onA && p.reportedState == helloOk)
		zzvrt.Assert(ok, "C01.trust-set-by-other-operation")
	}
	if !p.trustB0 && p.sB.Trusted() {
		ok := (op == opRegister && !onA) || (op == opStateUpdate && !onA && p.reportedState == helloOk)
		zzvrt.Assert(ok, "C01.trust-set-by-other-operation")
	}
	zzvrt.Assert(h.IsAutoAcceptEnabled() == h.autoaccept, "C01.autoaccept-query")

	// ---- C10: dial only with user intent
	intentA := p.intentA
	helloA := p.helloOkA
	if onA {
		switch op {
		case opRegister:
			intentA = true
		case opUnregister, opCancel:
			intentA = false
			helloA = false
		}
	}
	for _, ev := range p.e.log.Ev {
		if ev.Kind == hvDial {
			zzvrt.Assert(ev.B || ev.A == int(api.ConnectionStateQueued), "C10.dial-without-paired-or-queued")
			if ev.S == skiA {
				zzvrt.Assert(intentA || helloA, "C10.dial-without-user-intent")
				zzvrt.Assert(p.cA == nil || op == opConnClosed, "C10.dial-while-connected")
			}
			zzvrt.Assert(op != opShutdown, "C10.dial-during-shutdown")
			zzvrt.Assert(!down, "C10.dial-after-shutdown")
		}
	}
	// invariant preserved (so that the intent argument is inductive)
	trA := p.sA.Trusted()
	qA := p.sA.ConnectionStateDetail().State() == api.ConnectionStateQueued
	if op == opStateUpdate && onA {
		helloA = helloA || trA
	}
	zzvrt.Assert(!(trA || qA) || intentA || helloA, "C10.inv-trust-implies-intent")

	// ---- C05 (progress mechanisms): a visible, trusted, unconnected peer gets dialled; a lost connection of a
	// trusted peer makes the hub announce itself again and look at the known mDNS entries
	dialsA := 0
	announces, requests := 0, 0
	for _, ev := range p.e.log.Ev {
		switch ev.Kind {
		case hvDial:
			if ev.S == skiA {
				dialsA++
			}
		case hvMdnsAnnounce:
			announces++
		case hvMdnsRequest:
			requests++
		}
	}
	if op == opReportMdns && !down && p.mdnsHadA && p.trustA0 && p.cA == nil && !p.attemptRunningA {
		zzvrt.Assert(dialsA >= 1, "C05.visible-trusted-peer-not-dialled")
		zzvrt.Assert(dialsA <= 2, "C05.too-many-dials-for-one-report") // host name, then the (empty) address list
	}
	if op == opDelayedDial && onA {
		// the delayed attempt is over, whatever it did: the next mDNS report may start a new one
		zzvrt.Assert(!h.connectionAttemptRunning[skiA], "C05.attempt-running-flag-left-set")
		// the attempt is carried out when it is still the current one (same counter), the peer is still wanted and not
		// connected; when every address fails the hub asks mDNS again (the retry chain must not end silently)
		if !down && p.counterA && p.delayedCounter == p.counterA0 && (p.trustA0 || p.stateA0 == api.ConnectionStateQueued) && p.cA == nil {
			zzvrt.Assert(dialsA >= 1, "C05.current-delayed-attempt-not-carried-out")
			if p.trustA0 && len(h.connections) == 0 {
				failed := 0
				for _, ev := range p.e.log.Ev {
					if ev.Kind == hvDialFailed {
						failed++
					}
				}
				if failed == dialsA {
					zzvrt.Assert(requests >= 1, "C05.failed-attempt-not-followed-by-a-new-look-at-mdns")
				}
			}
		}
	}
	if op == opConnClosed && onA && p.closedRegistered && p.trustA0 {
		zzvrt.Assert(announces >= 1 && requests >= 1, "C05.lost-trusted-connection-not-reannounced")
		_, still := h.connections[skiA]
		zzvrt.Assert(!still, "C05.closed-connection-still-registered")
	}

	// unregister: untrusted, state none, counter gone, connection closed
	if op == opUnregister && onA {
		zzvrt.Assert(!p.sA.Trusted(), "C10.unregister-still-trusted")
		zzvrt.Assert(!p.sA.Trusted(), "C01.unregistered-ski-still-trusted")
		zzvrt.Assert(p.sA.ConnectionStateDetail().State() == api.ConnectionStateNone, "C10.unregister-state")
		_, has := h.connectionAttemptCounter[skiA]
		zzvrt.Assert(!has, "C10.unregister-counter-left")
		if p.cA != nil {
			n := 0
			for _, ev := range p.e.log.Ev {
				if ev.Kind == hvConnClose && ev.C == p.cA {
					n++
					zzvrt.Assert(ev.B && ev.A == 4500, "C10.unregister-close-args")
				}
			}
			zzvrt.Assert(n == 1, "C10.unregister-connection-not-closed")
		}
	}
	if op == opCancel && onA {
		zzvrt.Assert(!p.sA.Trusted(), "C10.cancel-still-trusted")
		zzvrt.Assert(!p.sA.Trusted(), "C01.cancelled-ski-still-trusted")
		if p.cA != nil {
			n := 0
			for _, ev := range p.e.log.Ev {
				if ev.Kind == hvConnAbort && ev.C == p.cA {
					n++
				}
			}
			zzvrt.Assert(n == 1, "C10.cancel-pending-handshake-not-aborted")
		}
	}
	// operations on B never touch A
	if !onA && op != opSetAuto && op != opReportMdns && op != opShutdown {
		zzvrt.Assert(p.sA.Trusted() == p.trustA0, "C10.other-ski-trust-changed")
		for _, ev := range p.e.log.Ev {
			if ev.C != nil && ev.C == p.cA {
				zzvrt.Fail("C10.other-ski-connection-touched")
			}
		}
	}
	zzvrt.Cover("hub.end")
}

// H_Hub_C11_Closed: HandleConnectionClosed forgets exactly the closing connection.
func H_Hub_C11_Closed() {
	e := newHubEnv()
	h := e.h
	sA := e.addService(skiA, "A")
	_ = sA
	e.addService(skiB, "B")
	regA := zzvrt.Bool("A.connected")
	var cA, cB *vConn
	if regA {
		cA = e.newConn(skiA, model.SmeStateComplete, 1)
		h.connections[skiA] = cA
	}
	if zzvrt.Bool("B.connected") {
		cB = e.newConn(skiB, model.SmeStateComplete, 3)
		h.connections[skiB] = cB
	}
	// the closing object: the registered one of A, an older object for A, or nothing registered
	var closing *vConn
	which := zzvrt.Choice("closing", 2)
	if which == 0 && cA != nil {
		closing = cA
	} else {
		closing = e.newConn(skiA, model.SmeStateComplete, 2) // older double connection of A
	}
	completed := zzvrt.Bool("completed")
	h.HandleConnectionClosed(closing, completed)
	zzvrt.RunAll()
	got, stillA := h.connections[skiA]
	if closing == cA && cA != nil {
		zzvrt.Assert(!stillA, "C11.registered-connection-not-forgotten")
	} else if cA != nil {
		zzvrt.Assert(stillA && got == api.ShipConnectionInterface(cA), "C11.newer-connection-dropped")
	}
	gotB, stillB := h.connections[skiB]
	if cB != nil {
		zzvrt.Assert(stillB && gotB == api.ShipConnectionInterface(cB), "C11.other-ski-dropped")
	} else {
		zzvrt.Assert(!stillB, "C11.other-ski-appeared")
	}
	n := 0
	for _, ev := range e.log.Ev {
		if ev.Kind == hvDisconnected {
			n++
			zzvrt.Assert(ev.S == skiA, "C11.disconnect-for-wrong-ski")
		}
	}
	zzvrt.Assert(n == 1, "C11.disconnect-notification-count")
	zzvrt.Cover("hub.end")
}

// H_Hub_C11_CloseVsRegister: the end of an old double connection is reported while the newer connection of the same SKI
// gets registered (two goroutines): the newer connection's registry entry must survive every interleaving.
func H_Hub_C11_CloseVsRegister() {
	e := newHubEnv()
	h := e.h
	e.addService(skiA, "A")
	old := e.newConn(skiA, model.SmeStateComplete, 1)
	newer := e.newConn(skiA, model.SmeStateComplete, 2)
	h.connections[skiA] = old
	completed := zzvrt.Bool("completed")
	done := 0
	go func() { h.HandleConnectionClosed(old, completed); done++ }()
	go func() { h.registerConnection(newer); done++ }()
	zzvrt.WaitQuiescent()
	zzvrt.Assert(done == 2, "C11.blocked")
	got, ok := h.connections[skiA]
	zzvrt.Assert(ok && got == api.ShipConnectionInterface(newer), "C11.newer-connection-dropped-by-racing-close")
	zzvrt.Cover("hub.end")
}
