//go:build verif

package hub

import (
	"errors"
	"time"

	"github.com/enbility/ship-go/api"
	"github.com/enbility/ship-go/model"
	"github.com/enbility/ship-go/ship"
	"github.com/enbility/ship-go/zzvrt"
)

// ---- the real Hub with real ShipConnections (transport faked): C11's accounting and notification clauses ----

// cWs: the transport handle of one composed connection
type cWs struct {
	id     int
	closed bool
	closes int
	writes int
}

func (w *cWs) InitDataProcessing(api.WebsocketDataReaderInterface) {}
func (w *cWs) WriteMessageToWebsocketConnection(m []byte) error {
	if w.closed {
		return errors.New("connection is closed")
	}
	w.writes++
	return nil
}
func (w *cWs) CloseDataConnection(int, string) { w.closed = true; w.closes++ }
func (w *cWs) IsDataConnectionClosed() (bool, error) {
	if w.closed {
		return true, errors.New("connection is closed")
	}
	return false, nil
}

type cConn struct {
	c         *ship.ShipConnection
	w         *cWs
	completed bool
}

const (
	ceNewIncoming = iota // a further connection for the SKI arrives (double connection resolution, registration)
	ceNewOutgoing
	ceComplete     // the handshake of a live connection completes
	ceDisconnect   // application: DisconnectSKI
	ceTransportErr // the transport of a live connection fails
	ceHandshakeErr // the handshake of a live, not yet completed connection times out
	ceDelayed      // the 500 ms delays of pending close closures elapse
	ceUnregister   // application: UnregisterRemoteSKI
	ceShutdown     // application: Shutdown
	ceKinds
)

// settleNow runs what follows an event without a delay: every spawned goroutine runs; timers are off, so the ones that
// sleep first (the delayed close, the delayed notification, the double-connection close frame) stop at their time.After.
func settleNow() { zzvrt.RunImmediate() }

// elapse: that much time passes, sleeping goroutines whose delay is over continue.
func elapse() {
	zzvrt.FireTimersUpTo(time.Second)
	zzvrt.WaitQuiescent()
	zzvrt.RunImmediate()
}

func regOf(h *Hub, ski string, conns []*cConn) *cConn {
	reg := h.connectionForSKI(ski)
	for _, cc := range conns {
		if reg != nil && reg == api.ShipConnectionInterface(cc.c) {
			return cc
		}
	}
	return nil
}

// c11Compose: up to `steps` events on the connections of one SKI, then everything settles (all delays elapse).
// localHigher: which side wins the double-connection rule.
func c11Compose(steps int) {
	zzvrt.SetTimers(false)
	e := newHubEnv()
	h := e.h
	remote := skiA // "aaaa.." < local "5555.."? no: '5' < 'a', so the remote SKI is the higher one
	if zzvrt.Bool("local.higher") {
		remote = "1111111111111111111111111111111111111111"
	}
	svc := h.ServiceForSKI(remote)
	svc.SetTrusted(true)
	h.hasStarted = true
	var conns []*cConn
	nextID := 1
	newConn := func(incoming bool) {
		role := ship.ShipRoleClient
		if incoming {
			role = ship.ShipRoleServer
		}
		// the tails of ServeHTTP / connectFoundService: double-connection check, then create, run, register
		h.muxConKeep.Lock()
		keep := h.keepThisConnection(nil, incoming, svc)
		if keep {
			w := &cWs{id: nextID}
			nextID++
			c := ship.NewConnectionHandler(h, w, role, "local-ship-id", remote, "")
			c.Run()
			h.registerConnection(c)
			conns = append(conns, &cConn{c: c, w: w})
		}
		h.muxConKeep.Unlock()
	}
	newConn(zzvrt.Bool("first.incoming"))
	settleNow()
	// ghosts: an announced (safe) close of the completed, registered connection is in its 500 ms delay; a further
	// connection of the same SKI arrived inside that window
	safePending, overlap := false, false
	for i := 0; i < steps; i++ {
		ev := zzvrt.Choice("ev", ceKinds)
		// the event's subject: the most recent connection, or the one before it
		var sub *cConn
		if len(conns) > 0 {
			sub = conns[len(conns)-1]
			if len(conns) > 1 && zzvrt.Bool("ev.older") {
				sub = conns[len(conns)-2]
			}
		}
		switch ev {
		case ceNewIncoming, ceNewOutgoing:
			if len(conns) >= 3 {
				zzvrt.Assume(false)
			}
			if safePending {
				overlap = true
			}
			newConn(ev == ceNewIncoming)
		case ceComplete:
			if sub == nil || sub.w.closed || sub.completed || ship.VState(sub.c) == int(model.SmeStateError) {
				zzvrt.Assume(false)
			}
			sub.completed = true
			ship.VCompleteHandshake(sub.c)
		case ceDisconnect:
			if r := regOf(h, remote, conns); r != nil && r.completed && !r.w.closed {
				safePending = true
			}
			h.DisconnectSKI(remote, "user")
		case ceTransportErr:
			if sub == nil || sub.w.closed {
				zzvrt.Assume(false)
			}
			sub.w.closed = true
			sub.c.ReportConnectionError(errors.New("transport failed"))
		case ceHandshakeErr:
			if sub == nil || sub.w.closed || sub.completed {
				zzvrt.Assume(false)
			}
			ship.VTimeout(sub.c)
		case ceDelayed:
			safePending = false
			elapse()
		case ceUnregister:
			if r := regOf(h, remote, conns); r != nil && r.completed && !r.w.closed {
				safePending = true
			}
			h.UnregisterRemoteSKI(remote)
		case ceShutdown:
			h.Shutdown()
		}
		settleNow()
	}
	// ---- everything settles: all delays elapse, repeatedly (a delayed closure may spawn nothing further, but be safe)
	for k := 0; k < 3; k++ {
		elapse()
	}
	// ---- oracles
	// (1) the registry holds nothing, or a connection that has not ended; an ended connection is never registered
	reg := h.connectionForSKI(remote)
	var regC *cConn
	for _, cc := range conns {
		if reg != nil && reg == api.ShipConnectionInterface(cc.c) {
			regC = cc
		}
		if cc.w.closed {
			zzvrt.Assert(reg == nil || reg != api.ShipConnectionInterface(cc.c), "C11.ended-connection-still-registered")
		}
	}
	zzvrt.Assert(reg == nil || regC != nil, "C11.unknown-object-registered")
	// (2) every connection that was created is either still live and registered, or has ended with its transport closed:
	// none is left live but unregistered (nobody would ever close it)
	for _, cc := range conns {
		if !cc.w.closed {
			zzvrt.Assert(regC == cc, "C11.live-connection-not-registered")
		}
	}
	// (3) ends are reported once each: one disconnect notification per ended connection
	ended := 0
	for _, cc := range conns {
		if cc.w.closed {
			ended++
		}
	}
	discs, setups := 0, 0
	lastIsSetup, any := false, false
	for _, x := range e.log.Ev {
		switch x.Kind {
		case hvDisconnected:
			discs++
			lastIsSetup, any = false, true
		case hvSetup:
			setups++
			lastIsSetup, any = true, true
		}
	}
	zzvrt.Assert(discs == ended, "C11.ends-and-disconnect-notifications-differ")
	// (4) the notifications end consistent with reality
	completedRegistered := regC != nil && regC.completed && !regC.w.closed
	if any && overlap {
		// known finding: the end of an announced close is reported 500 ms late; a connection of the same SKI that is
		// registered and completes inside that window is followed by the old connection's disconnect notification
		zzvrt.Assert(lastIsSetup == completedRegistered, "C11.reconnect-within-the-close-delay-ends-with-disconnected")
	} else if any {
		zzvrt.Assert(lastIsSetup == completedRegistered, "C11.last-notification-inconsistent-with-registry")
	} else {
		zzvrt.Assert(!completedRegistered, "C11.completed-connection-never-announced")
	}
	zzvrt.Cover("hub.end")
}

func H_C11_Compose2() { c11Compose(2) }
func H_C11_Compose3() { c11Compose(3) }
func H_C11_Compose4() { c11Compose(4) }
