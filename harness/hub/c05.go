//go:build verif

package hub

import (
	"crypto/tls"
	"crypto/x509"
	"net/http"

	"github.com/enbility/ship-go/api"
	"github.com/enbility/ship-go/model"
	"github.com/enbility/ship-go/zzvrt"
	"github.com/gorilla/websocket"
)

func hubWithLocal(ski string) *hEnv {
	log := &hLog{}
	r := &vHubReader{log: log}
	m := &vMdns{log: log}
	local := api.NewServiceDetails(ski)
	h := NewHub(r, m, 4711, tls.Certificate{}, local)
	return &hEnv{h: h, log: log, reader: r, mdns: m}
}

// keepDecision: on hub `local`, connection `existing` is registered for `remote`, the new one arrives
// (incoming or outgoing). Returns true if the NEW connection survives; checks that the loser is closed.
func keepDecision(local, remote string, incoming bool) bool {
	e := hubWithLocal(local)
	existing := e.newConn(remote, model.SmeStateComplete, 1)
	e.h.connections[remote] = existing
	svc := api.NewServiceDetails(remote)
	c02 = &c02Env{}
	keep := e.h.keepThisConnection(&websocket.Conn{}, incoming, svc)
	zzvrt.RunAll()
	if keep {
		zzvrt.Assert(existing.closed == 1, "C05.kept-new-but-old-not-closed")
		zzvrt.Assert(c02.connCloses == 0, "C05.kept-new-but-closed-it")
	} else {
		zzvrt.Assert(existing.closed == 0, "C05.kept-old-but-closed-it")
		zzvrt.Assert(c02.connCloses == 1, "C05.rejected-new-but-socket-left-open")
	}
	return keep
}

// H_C05_TieBreak: two hubs with SKIs a != b and the two simultaneous connections X (a dials b), Y (b dials a):
// whatever registers first on each hub, both keep the same connection - the one dialled by the higher SKI.
func H_C05_TieBreak() {
	a := zzvrt.Str("ski.a")
	b := zzvrt.Str("ski.b")
	zzvrt.Assume(a != b)
	zzvrt.Assume(zzvrt.AndB(zzvrt.BytesInRange(a, '0', 'f', ":;<=>?@ABCDEFGHIJKLMNOPQRSTUVWXYZ[\\]^_`"), zzvrt.BytesInRange(b, '0', 'f', ":;<=>?@ABCDEFGHIJKLMNOPQRSTUVWXYZ[\\]^_`")))
	zzvrt.Assume(zzvrt.AndB(len(a) > 0, len(b) > 0))
	xWins := a > b // X is dialled by a
	// hub A (local a): X is its outgoing, Y its incoming connection
	keepX_onA := keepDecision(a, b, false) // Y registered, X arrives
	keepY_onA := keepDecision(a, b, true)  // X registered, Y arrives
	// hub B (local b): Y is its outgoing, X its incoming connection
	keepY_onB := keepDecision(b, a, false) // X registered, Y arrives
	keepX_onB := keepDecision(b, a, true)  // Y registered, X arrives
	zzvrt.Assert(keepX_onA == xWins, "C05.hubA-outgoing-decision")
	zzvrt.Assert(keepY_onA == !xWins, "C05.hubA-incoming-decision")
	zzvrt.Assert(keepY_onB == !xWins, "C05.hubB-outgoing-decision")
	zzvrt.Assert(keepX_onB == xWins, "C05.hubB-incoming-decision")
	// no existing connection: always keep
	e := hubWithLocal(a)
	zzvrt.Assert(e.h.keepThisConnection(nil, zzvrt.Bool("incoming"), api.NewServiceDetails(b)), "C05.first-connection-refused")
	zzvrt.Cover("hub.end")
}

// H_C05_Backoff: attempt counter and delay arithmetic from an arbitrary in-range counter state.
func H_C05_Backoff() {
	e := newHubEnv()
	h := e.h
	has := zzvrt.Bool("counter.present")
	pre := 0
	if has {
		pre = zzvrt.Int("counter", 0, len(connectionInitiationDelayTimeRanges)-1)
		h.connectionAttemptCounter[skiA] = pre
	}
	counter, d := h.getConnectionInitiationDelayTime(skiA)
	n := len(connectionInitiationDelayTimeRanges)
	zzvrt.Assert(counter >= 0 && counter <= n-1, "C05.counter-out-of-range")
	if has {
		zzvrt.Assert(counter >= pre && counter <= pre+1, "C05.counter-step")
	} else {
		zzvrt.Assert(counter == 0, "C05.first-attempt-not-zero")
	}
	got, ok := h.connectionAttemptCounter[skiA]
	zzvrt.Assert(ok && got == counter, "C05.counter-not-stored")
	if counter >= 0 && counter <= n-1 {
		row := connectionInitiationDelayTimeRanges[counter]
		ms := int64(d / 1000000)
		zzvrt.Assert(ms >= int64(row.min)*1000 && ms < int64(row.max)*1000, "C05.delay-outside-row")
		zzvrt.Assert(row.max > row.min, "C05.empty-delay-row")
	}
	// at most one attempt per SKI while one is running
	h.connectionAttemptRunning[skiA] = true
	before := len(e.log.Ev)
	h.coordinateConnectionInitations(skiA, mdnsEntry(skiA))
	zzvrt.Assert(zzvrt.NumParked("") == 0 && len(e.log.Ev) == before, "C05.second-attempt-while-running")
	zzvrt.Cover("hub.end")
}

// H_C05_Atomicity: an inbound and an outbound connection to the same peer established at the same time on one hub
// (the real ServeHTTP and connectFoundService tails, TLS/websocket calls cut): afterwards the registry must hold
// the connection the tie-break keeps and every other connection object must have been closed.
func H_C05_Atomicity() {
	c02 = &c02Env{subprotocol: "ship"}
	zzvrt.SetTimers(false) // no handshake timeout / delayed notification elapses during the establishment
	e := hubWithLocal("5555555555555555555555555555555555555555")
	h := e.h
	ski := []byte{0x01, 0x23, 0x45, 0x67, 0x89, 0xab, 0xcd, 0xef, 0x01, 0x23, 0x45, 0x67, 0x89, 0xab, 0xcd, 0xef, 0x01, 0x23, 0x45, 0x67}
	remote := "0123456789abcdef0123456789abcdef01234567"
	crt := &x509.Certificate{SubjectKeyId: ski}
	c02.dialCerts = []*x509.Certificate{crt}
	svc := api.NewServiceDetails(remote)
	svc.SetTrusted(true)
	h.remoteServices[remote] = svc
	r := &http.Request{TLS: &tls.ConnectionState{PeerCertificates: []*x509.Certificate{crt}}}
	done := 0
	go func() { h.ServeHTTP(nil, r); done++ }()
	go func() { _ = h.connectFoundService(svc, "host", "4712", "/ship/"); done++ }()
	zzvrt.WaitQuiescent()
	zzvrt.Assert(done == 2, "C05.establishment-blocked")
	// live websocket pumps = connection objects that were created and not closed
	live := zzvrt.NumLive("writeShipPump") // the write pump of a closed connection has terminated
	zzvrt.LogInt("registry size", len(h.connections))
	zzvrt.LogInt("live read pumps", live)
	zzvrt.LogInt("closes on sockets", c02.connCloses)
	for _, ev := range e.log.Ev {
		zzvrt.LogInt("hub event kind", ev.Kind)
	}
	zzvrt.Assert(len(h.connections) == 1, "C05.registry-size")
	zzvrt.Assert(live <= 1, "C05.unregistered-extra-connection")
	zzvrt.Cover("hub.end")
}

// vWsRead: the peer stays silent (the read blocks until the socket is closed - never, in this model)
func vWsRead(c *websocket.Conn) (int, []byte, error) {
	ch := make(chan struct{})
	<-ch
	return 0, nil, nil
}
