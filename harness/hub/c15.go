//go:build verif

package hub

import (
	"github.com/enbility/ship-go/api"
	"github.com/enbility/ship-go/model"
	"github.com/enbility/ship-go/util"
	"github.com/enbility/ship-go/zzvrt"
)

type c15Side struct {
	e    *hEnv
	svc  *api.ServiceDetails
	conn *vConn
}

func c15Build(k string, trusted bool, cstate int, hasConn bool, connState int, hasCounter bool, started bool) *c15Side {
	e := newHubEnv()
	s := &c15Side{e: e}
	e.h.hasStarted = started
	if zzvrtKnown {
		s.svc = api.NewServiceDetails(k)
		s.svc.SetTrusted(trusted)
		s.svc.ConnectionStateDetail().SetState(api.ConnectionState(cstate))
		e.h.remoteServices[k] = s.svc
	}
	if hasConn {
		s.conn = e.newConn(k, model.ShipMessageExchangeState(connState), 1)
		e.h.connections[k] = s.conn
	}
	if hasCounter {
		e.h.connectionAttemptCounter[k] = 1
	}
	return s
}

var zzvrtKnown = true

const (
	c15Register = iota
	c15Unregister
	c15Disconnect
	c15Cancel
	c15PairingDetail
	c15ServiceForSKI
	c15Paired
	c15Count
)

func (s *c15Side) apply(op int, ski string) (int, bool) {
	h := s.e.h
	switch op {
	case c15Register:
		h.RegisterRemoteSKI(ski)
	case c15Unregister:
		h.UnregisterRemoteSKI(ski)
	case c15Disconnect:
		h.DisconnectSKI(ski, "r")
	case c15Cancel:
		h.CancelPairingWithSKI(ski)
	case c15PairingDetail:
		d := h.PairingDetailForSki(ski)
		return int(d.State()), d.Error() != nil
	case c15ServiceForSKI:
		sv := h.ServiceForSKI(ski)
		return int(sv.ConnectionStateDetail().State()), sv.Trusted()
	case c15Paired:
		return 0, h.IsRemoteServiceForSKIPaired(ski)
	}
	return 0, false
}

// H_Hub_C15: every hub operation has the same effect for a re-formatted SKI x as for its canonical form k = N(x).
// N (util.NormalizeSKI) is an uninterpreted idempotent function here; its string-level lemmas are decided separately.
func H_Hub_C15() {
	x := zzvrt.Str("ski.spelling")
	k := util.NormalizeSKI(x)
	trusted := zzvrt.Bool("svc.trusted")
	cstate := zzvrt.Int("svc.cstate", 0, 9)
	hasConn := zzvrt.Bool("conn.registered")
	connState := zzvrt.Int("conn.state", 0, 39)
	hasCounter := zzvrt.Bool("counter.present")
	started := zzvrt.Bool("hub.started")
	a := c15Build(k, trusted, cstate, hasConn, connState, hasCounter, started)
	b := c15Build(k, trusted, cstate, hasConn, connState, hasCounter, started)
	op := zzvrt.Choice("op", c15Count)
	ra1, ra2 := a.apply(op, x)
	rb1, rb2 := b.apply(op, k)
	zzvrt.Assert(ra1 == rb1 && ra2 == rb2, "C15.return-value-differs")
	// post-state of the service record
	sa, oka := a.e.h.remoteServices[k]
	sb, okb := b.e.h.remoteServices[k]
	zzvrt.Assert(oka == okb, "C15.service-record-presence-differs")
	if oka && okb {
		zzvrt.Assert(sa.Trusted() == sb.Trusted(), "C15.trust-differs")
		zzvrt.Assert(sa.ConnectionStateDetail().State() == sb.ConnectionStateDetail().State(), "C15.pairing-state-differs")
	}
	zzvrt.Assert(len(a.e.h.remoteServices) == len(b.e.h.remoteServices), "C15.extra-service-record")
	_, ca := a.e.h.connectionAttemptCounter[k]
	_, cb := b.e.h.connectionAttemptCounter[k]
	zzvrt.Assert(ca == cb, "C15.attempt-counter-differs")
	// recorded calls on connection / application / mdns: same kinds, same arguments (SKIs modulo N)
	zzvrt.Assert(len(a.e.log.Ev) == len(b.e.log.Ev), "C15.effects-differ")
	if len(a.e.log.Ev) == len(b.e.log.Ev) {
		for i := range a.e.log.Ev {
			ea, eb := a.e.log.Ev[i], b.e.log.Ev[i]
			zzvrt.Assert(ea.Kind == eb.Kind && ea.A == eb.A && ea.B == eb.B, "C15.effect-differs")
			zzvrt.Assert(util.NormalizeSKI(ea.S) == util.NormalizeSKI(eb.S), "C15.effect-ski-differs")
		}
	}
	zzvrt.Cover("hub.end")
}
