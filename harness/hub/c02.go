//go:build verif

package hub

import (
	"crypto/tls"
	"crypto/x509"
	"errors"
	"fmt"
	"io"
	"net"
	"net/http"

	"github.com/enbility/ship-go/api"
	"github.com/enbility/ship-go/cert"
	"github.com/enbility/ship-go/zzvrt"
	"github.com/gorilla/websocket"
)

// ---- environment for the TLS / websocket layer (gorilla and crypto calls are cut to these) ----

type c02Env struct {
	upgradeErr   bool
	subprotocol  string
	connCloses   int
	upgraderSubs []string
	dialerSubs   []string
	dialErr      bool
	dialCerts    []*x509.Certificate
	keyHash      [20]byte // what SHA-1 of the presented public key would be
	parseErr     bool
	parsed       *x509.Certificate
	wsWrites     int
}

var c02 *c02Env

func vUpgrade(u *websocket.Upgrader, w http.ResponseWriter, r *http.Request, h http.Header) (*websocket.Conn, error) {
	c02.upgraderSubs = u.Subprotocols
	if c02.upgradeErr {
		return nil, errors.New("upgrade failed")
	}
	return &websocket.Conn{}, nil
}

func vSubprotocol(c *websocket.Conn) string { return c02.subprotocol }

func vWsClose(c *websocket.Conn) error { c02.connCloses++; return nil }

func vWsWrite(c *websocket.Conn, t int, b []byte) error { c02.wsWrites++; return nil }

type vBody struct{}

func (vBody) Read(p []byte) (int, error) { return 0, io.EOF }
func (vBody) Close() error               { return nil }

func vDialWS(d *websocket.Dialer, url string, h http.Header) (*websocket.Conn, *http.Response, error) {
	c02.dialerSubs = d.Subprotocols
	if c02.dialErr {
		return nil, nil, errors.New("dial failed")
	}
	return &websocket.Conn{}, &http.Response{Body: vBody{}}, nil
}

func vUnderlying(c *websocket.Conn) net.Conn { return &tls.Conn{} }

func vConnState(c *tls.Conn) tls.ConnectionState {
	return tls.ConnectionState{PeerCertificates: c02.dialCerts}
}

func vSha1(data []byte) [20]byte { return c02.keyHash }

func vParseCert(der []byte) (*x509.Certificate, error) {
	if c02.parseErr {
		return nil, errors.New("parse error")
	}
	return c02.parsed, nil
}

// symCert: a certificate whose SubjectKeyId is nil or has a symbolic length 0..24 and symbolic bytes.
func symCert(tag string) *x509.Certificate {
	c := &x509.Certificate{}
	if zzvrt.Bool(tag + ".hasSKI") {
		n := zzvrt.Choice(tag+".skilen", 4) // 0, 19, 20, 21
		ln := []int{0, 19, 20, 21}[n]
		b := make([]byte, ln)
		for i := range b {
			b[i] = zzvrt.Byte(tag + ".ski")
		}
		c.SubjectKeyId = b
	}
	return c
}

// fixCert: certificate i with a concrete, distinct SubjectKeyId of a symbolic length class (absent, 0, 19, 20, 21 bytes).
func fixCert(tag string, i int) *x509.Certificate {
	c := &x509.Certificate{}
	if zzvrt.Bool(tag + ".hasSKI") {
		ln := []int{0, 19, 20, 21}[zzvrt.Choice(tag+".skilen", 4)]
		b := make([]byte, ln)
		for k := range b {
			b[k] = byte(0x10*(i+1) + k)
		}
		c.SubjectKeyId = b
	}
	return c
}

func hexOf(b []byte) string { return fmt.Sprintf("%0x", b) }

func isLowerHex40(s string) bool {
	return zzvrt.AndB(len(s) == 40, zzvrt.BytesInRange(s, '0', 'f', ":;<=>?@ABCDEFGHIJKLMNOPQRSTUVWXYZ[\\]^_`"))
}

// H_C02_Ski: SkiFromCertificate and verifyPeerCertificate.
func H_C02_Ski() {
	c02 = &c02Env{}
	for i := range c02.keyHash {
		c02.keyHash[i] = zzvrt.Byte("keyhash")
	}
	c := symCert("cert")
	s, err := cert.SkiFromCertificate(c)
	if err == nil {
		zzvrt.Assert(len(c.SubjectKeyId) == 20, "C02.ski-accepted-with-wrong-length")
		zzvrt.Assert(s == hexOf(c.SubjectKeyId), "C02.ski-text-differs")
		zzvrt.Assert(isLowerHex40(s), "C02.ski-not-40-lower-hex")
		same := true
		for i := 0; i < 20 && i < len(c.SubjectKeyId); i++ {
			same = zzvrt.AndB(same, c.SubjectKeyId[i] == c02.keyHash[i])
		}
		zzvrt.Assert(same, "C02.ski-not-bound-to-public-key")
	} else {
		zzvrt.Assert(len(c.SubjectKeyId) != 20, "C02.valid-ski-refused")
	}
	// verifyPeerCertificate: accepted => some presented certificate parsed and carries a 20-byte SKI
	h := newHubEnv().h
	c02.parsed = c
	c02.parseErr = zzvrt.Bool("parse.err")
	n := zzvrt.Choice("rawcerts", 3)
	raw := make([][]byte, n)
	verr := h.verifyPeerCertificate(raw, nil)
	if verr == nil {
		zzvrt.Assert(n > 0 && !c02.parseErr && len(c.SubjectKeyId) == 20, "C02.peer-certificate-accepted-without-ski")
	}
	zzvrt.Cover("hub.end")
}

// H_C02_Inbound: ServeHTTP accepts only with upgrade ok, sub-protocol ship, a client certificate with a 20-byte SKI,
// attributes the connection to certificate 0's SKI, role server; every refusal closes the socket.
func H_C02_Inbound() {
	c02 = &c02Env{}
	e := newHubEnv()
	h := e.h
	c02.upgradeErr = zzvrt.Bool("upgrade.err")
	if zzvrt.Bool("subprotocol.ship") {
		c02.subprotocol = "ship"
	} else {
		c02.subprotocol = zzvrt.StrMax("subprotocol", 4)
	}
	r := &http.Request{}
	var certs []*x509.Certificate
	if zzvrt.Bool("tls.present") {
		n := zzvrt.Choice("peercerts", 3)
		for i := 0; i < n; i++ {
			certs = append(certs, fixCert("cert", i))
		}
		r.TLS = &tls.ConnectionState{PeerCertificates: certs}
	}
	// the service may be known with a stored SHIP ID
	storedID := ""
	knownSKI := ""
	if len(certs) > 0 && len(certs[0].SubjectKeyId) == 20 && zzvrt.Bool("service.known") {
		knownSKI = hexOf(certs[0].SubjectKeyId)
		storedID = "stored-ship-id"
		s := api.NewServiceDetails(knownSKI)
		s.SetShipID(storedID)
		h.remoteServices[knownSKI] = s
	}
	h.ServeHTTP(nil, r)
	zzvrt.Assert(len(c02.upgraderSubs) == 1 && c02.upgraderSubs[0] == "ship", "C02.upgrader-subprotocols")
	accepted := len(h.connections) > 0
	if accepted {
		zzvrt.Assert(!c02.upgradeErr, "C02.accepted-after-failed-upgrade")
		zzvrt.Assert(c02.subprotocol == "ship", "C02.accepted-without-ship-subprotocol")
		zzvrt.Assert(r.TLS != nil && len(certs) > 0, "C02.accepted-without-client-certificate")
		if len(certs) > 0 {
			zzvrt.Assert(len(certs[0].SubjectKeyId) == 20, "C02.accepted-without-20-byte-ski")
			want := hexOf(certs[0].SubjectKeyId)
			conn, ok := h.connections[want]
			zzvrt.Assert(ok && len(h.connections) == 1, "C02.attributed-to-other-ski")
			if ok {
				zzvrt.Assert(conn.RemoteSKI() == want, "C02.attributed-to-other-ski")
				zzvrt.Assert(zzvrt.FieldStr(conn, "role") == "server", "C02.inbound-role-not-server")
				zzvrt.Assert(zzvrt.FieldStr(conn, "localShipID") == "local-ship-id", "C09.local-ship-id-not-passed")
				zzvrt.Assert(zzvrt.FieldStr(conn, "remoteShipID") == storedID, "C09.stored-ship-id-not-passed")
			}
		}
		zzvrt.Assert(c02.connCloses == 0, "C02.accepted-connection-closed")
	} else if !c02.upgradeErr {
		zzvrt.Assert(c02.connCloses == 1, "C02.refused-connection-not-closed")
		zzvrt.Assert(zzvrt.NumParked("readShipPump") == 0, "C02.refused-connection-processed")
	}
	zzvrt.Cover("hub.end")
}

// H_C02_Outbound: connectFoundService registers only if the presented SKI equals the dialled one.
func H_C02_Outbound() {
	c02 = &c02Env{}
	e := newHubEnv()
	h := e.h
	c02.dialErr = zzvrt.Bool("dial.err")
	n := zzvrt.Choice("peercerts", 3)
	for i := 0; i < n; i++ {
		if zzvrt.Bool("cert.matches") {
			// presents exactly the dialled SKI
			c02.dialCerts = append(c02.dialCerts, &x509.Certificate{SubjectKeyId: []byte{0x01, 0x23, 0x45, 0x67, 0x89, 0xab, 0xcd, 0xef, 0x01, 0x23, 0x45, 0x67, 0x89, 0xab, 0xcd, 0xef, 0x01, 0x23, 0x45, 0x67}})
		} else {
			c02.dialCerts = append(c02.dialCerts, fixCert("cert", i))
		}
	}
	dialled := api.NewServiceDetails("0123456789abcdef0123456789abcdef01234567")
	dialled.SetShipID("their-ship-id")
	h.remoteServices[dialled.SKI()] = dialled
	err := h.connectFoundService(dialled, "host", "4712", "/ship/")
	if !c02.dialErr {
		zzvrt.Assert(len(c02.dialerSubs) == 1 && c02.dialerSubs[0] == "ship", "C02.dialer-subprotocols")
	}
	accepted := len(h.connections) > 0
	if accepted {
		zzvrt.Assert(err == nil && !c02.dialErr, "C02.registered-after-failed-dial")
		zzvrt.Assert(n > 0 && len(c02.dialCerts[0].SubjectKeyId) == 20, "C02.outbound-accepted-without-ski")
		if n > 0 {
			zzvrt.Assert(hexOf(c02.dialCerts[0].SubjectKeyId) == dialled.SKI(), "C02.outbound-ski-mismatch-accepted")
		}
		conn, ok := h.connections[dialled.SKI()]
		zzvrt.Assert(ok, "C02.outbound-attributed-to-other-ski")
		if ok {
			zzvrt.Assert(zzvrt.FieldStr(conn, "role") == "client", "C02.outbound-role-not-client")
			zzvrt.Assert(zzvrt.FieldStr(conn, "remoteShipID") == "their-ship-id", "C09.stored-ship-id-not-passed")
			zzvrt.Assert(zzvrt.FieldStr(conn, "localShipID") == "local-ship-id", "C09.local-ship-id-not-passed")
		}
	} else if !c02.dialErr {
		zzvrt.Assert(err != nil, "C02.outbound-refused-without-error")
		zzvrt.Assert(c02.connCloses >= 1, "C02.outbound-refused-connection-not-closed")
		zzvrt.Assert(c02.wsWrites == 0 && zzvrt.NumParked("writeShipPump") == 0, "C02.outbound-refused-but-ship-started")
	}
	zzvrt.Cover("hub.end")
}

// H_C02_TLSConfig: the server's TLS configuration values.
func H_C02_TLSConfig() {
	e := newHubEnv()
	h := e.h
	_ = h.startWebsocketServer()
	cfg := h.httpServer.TLSConfig
	zzvrt.Assert(cfg != nil, "C02.tls-config-missing")
	if cfg != nil {
		zzvrt.Assert(cfg.ClientAuth >= tls.RequireAnyClientCert, "C02.client-certificate-not-required")
		zzvrt.Assert(cfg.MinVersion >= tls.VersionTLS12, "C02.min-tls-version")
		zzvrt.Assert(cfg.VerifyPeerCertificate != nil, "C02.peer-certificate-check-missing")
		zzvrt.Assert(len(cfg.CipherSuites) == len(cert.CipherSuites), "C02.cipher-suites")
		for i := range cert.CipherSuites {
			if i < len(cfg.CipherSuites) {
				zzvrt.Assert(cfg.CipherSuites[i] == cert.CipherSuites[i], "C02.cipher-suites")
			}
		}
		zzvrt.Assert(!cfg.InsecureSkipVerify || true, "C02.noop")
	}
	zzvrt.Cover("hub.end")
}
